#!/usr/bin/env python3
"""Handling of independently written mutants (from sub-agents), kept under /verif/seeded/<id>/.

  bin/seeded.py confirm <worktree> <mutant-dir>
        in the scratch worktree: demo passes on the clean tree; with the patch applied the workspace
        builds, the pinned suite passes (35/35) and the demo fails; tree restored afterwards.
  bin/seeded.py try <mutant-dir> <PROP> [<PROP>...] [--tier quick|thorough]
        apply the patch to /repo (git apply), run the listed checks, print the verdicts, and ALWAYS
        undo it (git -C /repo checkout -- .).  Nothing is ever committed in /repo.
  bin/seeded.py adopt <mutant-dir> <seeded-id> <PROP> "<what was run / result>"
        copy patch.diff + demo* + meta.json into /verif/seeded/<seeded-id>/ and extend meta.json.
"""
import glob
import json
import os
import shutil
import subprocess
import sys
import time

VERIF = os.path.dirname(os.path.dirname(os.path.abspath(__file__)))


def sh(cmd, cwd=None, timeout=3600):
    p = subprocess.run(cmd, shell=True, cwd=cwd, stdout=subprocess.PIPE, stderr=subprocess.STDOUT, timeout=timeout)
    return p.returncode, p.stdout.decode("utf-8", "replace")


def demo_cmd(mdir):
    """normalise the agents' demonstrations into one shell command run with cwd = worktree"""
    import re
    for name in ("demo.sh", "run.sh"):
        if os.path.exists(os.path.join(mdir, name)):
            return "sh %s" % os.path.join(mdir, name)
    for f in sorted(glob.glob(os.path.join(mdir, "demo*.py"))):
        return "python3 %s ." % f
    rs = os.path.join(mdir, "demo.rs")
    meta_p = os.path.join(mdir, "meta.json")
    if os.path.exists(rs) and os.path.exists(meta_p):
        how = json.load(open(meta_p)).get("demo_how_to_run", "")
        crate = re.search(r"-p (\w+)", how)
        test = re.search(r"--test (\w+)", how)
        feat = re.search(r"--features (\w+)", how)
        single = "--test-threads=1" in how
        rel = "--release" in how.split("(")[0]
        if crate and test:
            c, t = crate.group(1), test.group(1)
            return ("mkdir -p {c}/tests && cp {rs} {c}/tests/{t}.rs && cargo test -p {c} {f} {r} --test {t} --offline -j 8 -- {s}; rc=$?; "
                    "rm -f {c}/tests/{t}.rs; rmdir {c}/tests 2>/dev/null; exit $rc").format(
                        c=c, t=t, rs=rs, f=("--features " + feat.group(1)) if feat else "", r="--release" if rel else "", s="--test-threads=1" if single else "")
    return None


def tests_pass(cwd):
    rc, out = sh("cargo test --workspace --no-fail-fast --offline -j 8 2>&1 | grep -E '^test result' | awk '{p+=$4; f+=$6} END {print p\" \"f}'", cwd=cwd)
    return out.strip()


def confirm(wt, mdir):
    patch = os.path.join(mdir, "patch.diff")
    res = {}
    rc, out = sh("git status --porcelain --untracked-files=no", cwd=wt)
    if out.strip():
        print("worktree not clean:", out)
        return 2
    cmd = demo_cmd(mdir)
    if not cmd:
        print("no runnable demo found in", mdir)
        return 2
    rc0, out0 = sh(cmd, cwd=wt)
    res["demo_without_mutant_exit"] = rc0
    rc, out = sh("git apply %s" % patch, cwd=wt)
    if rc != 0:
        print("patch does not apply:", out)
        return 2
    try:
        rcb, outb = sh("cargo build --workspace --offline -j 8 2>&1 | tail -3", cwd=wt)
        res["builds"] = "error" not in outb.lower() or "warning" in outb.lower() and "error:" not in outb
        res["tests_with_mutant"] = tests_pass(wt)
        rc1, out1 = sh(cmd, cwd=wt)
        res["demo_with_mutant_exit"] = rc1
        res["demo_with_mutant_tail"] = out1.strip().splitlines()[-3:]
    finally:
        sh("git checkout -- .", cwd=wt)
        sh("git clean -fdq -- kmer ktio composition counter coverage misc kmertools pybindings pip conda tests", cwd=wt)
    ok = res["demo_without_mutant_exit"] == 0 and res.get("demo_with_mutant_exit", 0) != 0 and res.get("tests_with_mutant") == "35 0"
    res["confirmed"] = ok
    print(json.dumps(res, indent=1))
    return 0 if ok else 1


def try_(mdir, props, tier, worktree=None, only=None):
    """worktree=None: apply to /repo itself (the registered way).  worktree=<dir>: apply there and run the
    same checks with KTVERIF_REPO=<dir> (own caches), so several mutants can be tried concurrently."""
    patch = os.path.join(mdir, "patch.diff")
    repo = worktree or "/repo"
    envp = ("KTVERIF_REPO=%s " % worktree) if worktree else ""
    rc, out = sh("git -C %s status --porcelain --untracked-files=no" % repo)
    if out.strip():
        print("refusing: %s working tree is not clean" % repo)
        return 2
    rc, out = sh("git -C %s apply %s" % (repo, patch))
    if rc != 0:
        print("patch does not apply to %s:" % repo, out)
        return 2
    results = {}
    try:
        for p in props:
            t0 = time.time()
            rc, out = sh("%sbin/check %s --tier %s%s" % (envp, p, tier, (" --only " + only) if only else ""), cwd=VERIF, timeout=7200)
            sigs = sorted({l.split("sig=")[1].split(" ")[0] for l in out.splitlines() if l.startswith("VIOLATION") and "sig=" in l})
            first = next((l for l in out.splitlines() if l.startswith("VIOLATION")), "")
            err = [l for l in out.splitlines() if l.startswith("ERROR")]
            results[p] = {"exit": rc, "sigs": sigs[:6], "first": first[:400], "errors": err[:2], "wall_s": round(time.time() - t0)}
            print("%s: exit=%d sigs=%s %s (%.0fs)" % (p, rc, sigs[:6], err[:1], time.time() - t0), flush=True)
            if first:
                print("   " + first[:400])
    finally:
        sh("git -C %s checkout -- ." % repo)
    json.dump(results, open(os.path.join(mdir, "verif_result_%s%s.json" % (tier, ("_" + only.replace(".", "_")) if only else "")), "w"), indent=1)
    return 0


def adopt(mdir, sid, prop, note):
    dst = os.path.join(VERIF, "seeded", sid)
    os.makedirs(dst, exist_ok=True)
    for f in os.listdir(mdir):
        if f.startswith("verif_result"):
            continue
        shutil.copy(os.path.join(mdir, f), os.path.join(dst, f))
    meta_p = os.path.join(dst, "meta.json")
    meta = json.load(open(meta_p)) if os.path.exists(meta_p) else {}
    meta["breaks_property"] = prop
    meta["origin"] = "independent sub-agent given only the property text and a scratch worktree"
    meta["confirmed_by_verifier"] = note
    for tier in ("quick", "thorough"):
        rp = os.path.join(mdir, "verif_result_%s.json" % tier)
        if os.path.exists(rp):
            meta["checks_%s" % tier] = json.load(open(rp))
    json.dump(meta, open(meta_p, "w"), indent=1)
    print("adopted into", dst)
    return 0


def main():
    a = sys.argv[1:]
    if not a:
        print(__doc__)
        return 2
    if a[0] == "confirm":
        return confirm(a[1], a[2])
    if a[0] == "try":
        tier = "quick"
        rest = a[2:]
        if "--tier" in rest:
            i = rest.index("--tier")
            tier = rest[i + 1]
            rest = rest[:i] + rest[i + 2:]
        wt = None
        if "--worktree" in rest:
            i = rest.index("--worktree")
            wt = rest[i + 1]
            rest = rest[:i] + rest[i + 2:]
        only = None
        if "--only" in rest:
            i = rest.index("--only")
            only = rest[i + 1]
            rest = rest[:i] + rest[i + 2:]
        return try_(a[1], rest, tier, wt, only)
    if a[0] == "adopt":
        return adopt(a[1], a[2], a[3], a[4])
    print(__doc__)
    return 2


if __name__ == "__main__":
    sys.exit(main())
