#!/usr/bin/env python3
"""Regenerate /verif/MANIFEST.json from bin/plan.py (keeps the two in sync)."""
import json
import os
import subprocess
import sys

VERIF = os.path.dirname(os.path.dirname(os.path.abspath(__file__)))
sys.path.insert(0, os.path.join(VERIF, "bin"))
import plan  # noqa: E402

TEXT = {
    "C01": ("differential runtime monitor: text-level reference model vs the real iterator; bounded-exhaustive + seeded random + byte-table sweep, release and overflow-checked builds, Python binding, Miri shard (thorough)",
            "Held on every (bytes, k) explored: complete enumeration of a 7-letter alphabet to length 7/9 for k<=4 plus millions of random inputs for every k 1..=31. Input-quantified property, pure sequential code: exploration with an independent oracle is the right level; nothing is claimed for inputs not generated."),
    "C02": ("runtime monitor: involution / text-level reverse complement / decode round trip on all codes for k<=10 (12 thorough), sampled extremes+palindromes to k=31; metamorphic strand-symmetry monitor on the iterator",
            "All 4^k codes are enumerated for small k (exhaustive there), larger k are sampled with the extremes and palindromes the statement names; held on what was explored."),
    "C03": ("runtime monitor: kmer_pos_maps(k) vs enumerated canonical list and closed form for k<=8 (10 thorough); header observed through both writers, the CLI presets and the Python binding",
            "Complete for the k range enumerated (every canonical code of every k), so exhaustive within that bound; k beyond 10 is not explored."),
    "C04": ("differential + metamorphic runtime monitor: reference canonical counts vs per-record routine, public file API, CLI and Python binding; invariance under reverse complement, case and T->U; checked build turns unchecked indexing into aborts; ASan + Miri overlays (thorough)",
            "Held on the generated records/configurations; values judged with the tolerance the statement allows."),
    "C05": ("history monitor over the mapped writer's hook log (row offset of every write) under a schedule controller (exhaustive DFS at hook granularity for tiny configurations, random/PCT, free-running with perturbation) + byte-differential configuration matrix against a baseline + reference rows; filtered TSan stress (thorough)",
            "Schedule injection drives the real rayon/mutex code; exhaustive only for the listed (threads, records) at hook granularity, sampled beyond. Interleavings inside rayon's collect / the OS are exercised, not controlled."),
    "C06": ("differential runtime monitor: generated record list vs what Sequences / seq_stats deliver for every serialisation (wrap, CRLF, final newline, FASTQ, gzip stored/compressed/multi-member/BGZF), suffix table, CLI row counts; valgrind on CLI runs (thorough)",
            "Held on the generated files; the oracle is the generator's own record list, so no model of the parser is involved."),
    "C07": ("final-state + history monitors (exactly-once record take, per-chunk conservation over the temp files between count() and merge()) under the schedule controller, free-running sweeps and contention stress; checked build, ASan, filtered TSan, Miri shard (thorough)",
            "Exhaustive over hook-granularity schedules only for the tiny configurations listed; lost updates inside scc are sought by contention volume (evidence reports updates per key), not by controlled interleaving."),
    "C08": ("differential runtime monitor: reference multiplicities and bins vs kmers.vectors for library and CLI; byte comparison across thread counts and memory settings; checked build; ASan + >1 GiB batch stage (thorough)",
            "Held on the generated inputs/configurations; the 'flush every few records' regime is only reached by the thorough big-input stage."),
    "C09": ("differential runtime monitor: brute-force minimiser runs vs the real iterator; bounded-exhaustive over ACGTN to length 8/10 for 11 (w,m) pairs + seeded random with tie-producing content; checked build; Python binding; Miri shard (thorough)",
            "Held on every case explored after the end-of-sequence repair (fixed finding F1); exhaustive within the stated small bound."),
    "C10": ("runtime monitor on the s2m / m2s files (per-record runs vs brute force; m2s as exact inversion, multisets) under the schedule controller in both worker loops, free-running perturbation, bulk sweeps, CLI; filtered TSan stress (thorough)",
            "Exhaustive over hook-granularity schedules for the tiny configurations only; contention on one scc entry is exercised by low-complexity inputs."),
    "C11": ("runtime monitor with an exact dyadic-rational oracle (midpoint values while representable, sub-square containment for every point, prefix determinism), rejection clause at every position, file path under threads x batch limits, CLI and Python binding",
            "Held on the generated strings and square sizes; beyond ~50 bases only containment and a rounding bound are demanded."),
    "C12": ("runtime monitor: exact CGR end point per canonical k-mer column + reference counts + cross-check with the actual oligo output; byte comparison across threads and batch limits; CLI; ASan overlay (thorough)",
            "Held on the generated records for k 1..=7 and the sizes explored."),
    "C13": ("differential runtime monitor across the FFI boundary: Python binding vs the Rust core built from the same tree (exact equality) and a pure-Python reference; batches on the rayon pool under several RAYON_NUM_THREADS; iterator use after release of the source string with heap churn, natively and with the interpreter under valgrind memcheck (addressability reports with a frame in the extension module); each group in a child interpreter",
            "Held on the generated strings; interpreter death is observed per child process. Miri cannot cross FFI, so lifetime soundness is only observed natively."),
    "C14": ("write-log monitor over every mm.write(pos,len,capacity) event (online bounds check before the copy, then overlap / tiling / size / NUL checks) + std UB-precondition checks of a debug-assertions build on all get_unchecked sites; ASan, Miri and filtered TSan overlays (thorough)",
            "Held on the runs explored after the row-size repair (fixed finding F6). A clean sanitizer run is not memory safety; the claim is that every logged write and every unchecked index reached by these workloads was in bounds."),
    "C15": ("metamorphic runtime monitor on the real binary (presets, -H, -t, -c, --acgt, stdin, --alt-input) + CLI-vs-library equality in-process + refusal matrix for out-of-range values",
            "Held on the relation groups explored over random inputs; option cross product is sampled, refusal matrix is fixed and complete for the documented range edges."),
    "C16": ("runtime monitor on the degenerate-input matrix: exit status / panic text / signals / row counts / zero rows / placeholder detection through the brute-force minimiser oracle, bounded-progress hang detection on CPU time; library entry points in release and checked builds; valgrind on the CLI matrix (thorough)",
            "Held on the matrix explored after the repairs F1, F3, F4, F5; 'no hang' is restated as bounded CPU progress on tiny inputs."),
    "C17": ("differential runtime monitor over run histories: result files after 2-3 runs into one location vs the last run alone in a fresh location, same command twice; planted stale temp files; library and CLI level",
            "Held on the generated histories (length 2-3); not all sequences of runs."),
    "C18": ("differential runtime monitor: k-mer-reporting minimiser iterator vs the plain one and vs the reference list of canonical w-mers; same bounded-exhaustive + random generators as C09; checked build; Miri shard (thorough)",
            "Held on every case explored; exhaustive within the stated small bound."),
}

NOTE = ("Trusted base: the reference models in /verif/harness/refmodel (cross-checked against /verif/py/refmodel.py in setup), "
        "the generators, rustc/cargo, and for CLI stages the process/exit-status plumbing of the driver. "
        "Hooks (cargo feature `verif`) only emit events / expose private entry points; the CLI and the Python module are built without them.")


def main():
    commits = subprocess.check_output(["git", "-C", "/repo", "log", "--format=%h %s"]).decode().splitlines()
    hook_commits = [c.split()[0] for c in commits if c.split(" ", 1)[1].startswith("verif hooks:")]
    checks = []
    for pid in sorted(plan.PLAN):
        tech, text = TEXT[pid]
        stages = plan.PLAN[pid]["stages"]
        if any(x["stage"].startswith("fence.") for x in stages):
            tech += "; guard-page (electric fence) placement of every input slice: an access outside the slice faults at native speed"
        if any(x["flavour"] == "VM" for x in stages):
            tech += "; valgrind memcheck on the monitor process itself in both tiers (addressability reports with a frame in repository code are verdicts)"
        checks.append({
            "property_id": pid,
            "quick_cmd": "bin/check %s --tier quick" % pid,
            "thorough_cmd": "bin/check %s --tier thorough" % pid,
            "evidence_file": "/verif/evidence/%s.json" % pid,
            "replay_cmd_template": "bin/check --replay {path}",
            "engine": "ktmon",
            "level_claimed": {"category": "exploration", "text": text, "design_ref": "DESIGN.md §3 %s" % pid},
            "level_note": NOTE,
            "technique": tech,
        })
    m = {
        "version": 1,
        "setup_cmd": "bin/setup",
        "hooks": {
            "guard": "cargo feature `verif` (crates ktio, composition, counter, coverage, misc); off by default",
            "enable": "the harness workspace /verif/harness path-depends on the /repo crates with features = [\"verif\"]; the CLI and the Python cdylib are built from /repo without the feature",
            "baseline_off_cmd": "cd /repo && cargo test --workspace --no-fail-fast --offline",
            "source_commits": hook_commits,
            "add_only": True,
        },
        "engines": [
            {"name": "ktmon", "path": "/verif/harness/ktmon", "serves_properties": sorted(plan.PLAN), "kind_free_text": "Rust monitor binary: generators, oracles, schedule controller, event-log checkers; built in release / checked / ASan / TSan flavours"},
            {"name": "ktmiri", "path": "/verif/harness/ktmiri", "serves_properties": ["C01", "C04", "C07", "C09", "C14", "C18"], "kind_free_text": "Miri-sized shards of the same oracles (cargo +nightly miri test)"},
            {"name": "pycheck", "path": "/verif/py/pycheck.py", "serves_properties": ["C01", "C02", "C03", "C04", "C09", "C11", "C13"], "kind_free_text": "Python-binding monitor: child interpreters, core-eval oracle, pure-Python reference"},
            {"name": "driver", "path": "/verif/bin/check", "serves_properties": sorted(plan.PLAN), "kind_free_text": "builds flavours from /repo's working tree, runs stages under watchdogs, classifies verdicts, writes evidence"},
        ],
        "checks": checks,
        "not_applicable": [],
        "notes": "Technique family: runtime monitoring and sanitizers. Verdicts are three-valued (held / violated / inconclusive); exit 2 + 'ERROR:' = broken run (build failure, nothing observed). Known findings: /verif/KNOWN_FINDINGS.txt (six genuine defects, all repaired by fix: commits in /repo). Seeds: VERIF_SEED.",
    }
    with open(os.path.join(VERIF, "MANIFEST.json"), "w") as f:
        json.dump(m, f, indent=1)
        f.write("\n")
    print("wrote MANIFEST.json with %d checks, hook commits %s" % (len(checks), hook_commits))


if __name__ == "__main__":
    main()
