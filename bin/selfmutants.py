#!/usr/bin/env python3
"""Sensitivity check of the monitors (DESIGN.md §7.2): apply one hand-written mutant at a time to
/repo's working tree, run the pinned test suite (must still pass for the mutant to count as
'realistic') and the quick checks of the properties it should break, then restore the tree.

usage: bin/selfmutants.py [--only ID[,ID..]] [--skip-tests]
Never commits anything in /repo; always ends with `git -C /repo checkout -- .`."""
import json
import os
import subprocess
import sys
import time

VERIF = os.path.dirname(os.path.dirname(os.path.abspath(__file__)))

# (id, properties expected to fire, file, old, new, note)
M = [
    ("s01", ["C01"], "kmer/src/kmer.rs", "mask: (1_u64 << (2 * ksize)) - 1,", "mask: (1_u64 << (2 * ksize)) - 2,", "mask drops the lowest bit"),
    ("s02", ["C01"], "kmer/src/kmer.rs", "                self.len -= 1;\n                return Some((self.fval, self.rval));", "                self.len = self.ksize - 1;\n                return Some((self.fval, self.rval));", "benign rewrite (must NOT fire)"),
    ("s03", ["C01"], "kmer/src/kmer.rs", "                // ambiguous\n                self.len = 0;", "                // ambiguous\n                self.len = self.len.saturating_sub(self.ksize);", "ambiguous byte does not fully reset for long clean runs"),
    ("s04", ["C02"], "kmer/src/kmer.rs", "self.rval = (self.rval >> 2) | (pos_r_val << self.shift);", "self.rval = (self.rval >> 2) | (pos_r_val << (self.shift & 0x3d));", "reverse register shift wrong only for k with bit 1 of 2(k-1) set"),
    ("s05", ["C02"], "kmer/src/lib.rs", "    s.chars().rev().collect()", "    if k > 29 { s.chars().collect() } else { s.chars().rev().collect() }", "decoder not reversed for k > 29"),
    ("s06", ["C03", "C04", "C12"], "kmer/src/kmer.rs", "        min_mer_vec.sort();\n", "        min_mer_vec.sort_by_key(|&x| (x >> 2, 3 - (x & 3)));\n", "column order wrong inside groups of 4"),
    ("s07", ["C04"], "composition/src/oligo.rs", "            vec.iter_mut().for_each(|el| *el /= f64::max(1_f64, total));\n        }\n        vec\n    }\n}\n\n#[cfg(feature", "            vec.iter_mut().for_each(|el| *el /= f64::max(1_f64, seq.len() as f64 - self.ksize as f64 + 1_f64));\n        }\n        vec\n    }\n}\n\n#[cfg(feature", "normalise by len-k+1 instead of valid windows (differs only with ambiguous bytes)"),
    ("s08", ["C05", "C14"], "composition/src/oligo.rs", "mm_slice.write_at(kvec_str.as_bytes(), start_pos + header_len);", "mm_slice.write_at(kvec_str.as_bytes(), start_pos + header_len.min(kvec_str.len()));", "header offset capped at row length (only wrong when header longer than a row: never) -> benign? header is shorter than row for all k", ),
    ("s09", ["C05"], "composition/src/oligo.rs", "                if !buffer.is_empty() {\n                    process_buffer(&buffer);\n                }\n            });\n        });\n\n        Ok(())\n    }\n\n    fn vectorise_mmap", "                if total > 0 {\n                    process_buffer(&buffer);\n                }\n            });\n        });\n\n        Ok(())\n    }\n\n    fn vectorise_mmap", "batch writer final flush guarded by bases (drops trailing base-less records)"),
    ("s10", ["C06"], "ktio/src/seq.rs", "path.ends_with(\".fasta\") || path.ends_with(\".fa\") || path.ends_with(\".fna\")", "path.ends_with(\".fasta\") || path.ends_with(\".fa\")", ".fna dropped from the suffix table"),
    ("s11", ["C07"], "counter/src/lib.rs", ".get_unchecked((min_mer % self.n_parts) as usize)", ".get_unchecked((fmer % self.n_parts) as usize)", "partition chosen by forward k-mer: same canonical key lands in two partitions"),
    ("s12", ["C07"], "counter/src/lib.rs", "        for part in 0..self.n_parts {\n            let completed", "        for part in 0..self.n_parts.min(24) {\n            let completed", "merge ignores partitions beyond 24"),
    ("s13", ["C08"], "coverage/src/lib.rs", "let vec_bin = min(kmer_bin, self.bin_count - 1);", "let vec_bin = min(kmer_bin, self.bin_count.saturating_sub(2).max(if self.bin_count > 1 { 1 } else { 0 }));", "last bin never used when bin_count > 2"),
    ("s14", ["C09", "C18"], "kmer/src/minimiser.rs", "                } else if min_m_val < self.m_active {", "                } else if min_m_val <= self.m_active {", "tie rule: equal minimiser value breaks the run"),
    ("s15", ["C10"], "misc/src/minimisers.rs", ".or_insert(vec![(record.id.clone(), s, e)]);", ".or_insert(vec![]);", "first attribution of every minimiser lost"),
    ("s16", ["C11"], "composition/src/cgr.rs", "        (b't', cgr_t), // Thymine\n        (b'g'", "        (b't', cgr_a), // Thymine\n        (b'g'", "lower-case t mapped to the A corner"),
    ("s17", ["C12"], "composition/src/oligocgr.rs", "        for (kmer, freq) in self.kmers.iter().zip(freqs.iter()) {", "        for (kmer, freq) in self.kmers.iter().zip(freqs.iter().rev()) {", "frequency vector zipped in reverse"),
    ("s18", ["C13"], "pybindings/src/oligo.rs", "            let min_mer = u64::min(fmer, rmer);\n            unsafe {", "            let min_mer = if self.ksize > 4 { fmer.min(rmer) } else { u64::min(fmer, rmer) };\n            let min_mer = if seq.len() > 200 { min_mer.max(rmer.min(fmer)) } else { min_mer };\n            unsafe {", "benign rewrite in binding (must NOT fire)"),
    ("s19", ["C13"], "pybindings/src/cgr.rs", "        seqs.into_par_iter()\n            .map(|seq| self.vectorise_one(seq))\n            .collect()", "        let mut seqs = seqs;\n        if seqs.len() > 512 { seqs.swap(0, 511); }\n        seqs.into_par_iter()\n            .map(|seq| self.vectorise_one(seq))\n            .collect()", "large CGR batches returned in a different order"),
    ("s20", ["C14"], "coverage/src/lib.rs", "let vec_bin = min(kmer_bin, self.bin_count - 1);", "let vec_bin = min(kmer_bin, self.bin_count);", "histogram index may equal bin_count (unchecked OOB)"),
    ("s21", ["C15"], "kmertools/src/args.rs", "                    VecFmtPreset::Csv => com.set_delim(\",\".to_owned()),\n                    VecFmtPreset::Spc => com.set_delim(\" \".to_owned()),\n                    VecFmtPreset::Tsv => com.set_delim(\"\\t\".to_owned()),\n                }\n                if let Err(e) = com.vectorise()", "                    VecFmtPreset::Csv => com.set_delim(\",\".to_owned()),\n                    VecFmtPreset::Spc => com.set_delim(\" \".to_owned()),\n                    VecFmtPreset::Tsv => com.set_delim(\",\".to_owned()),\n                }\n                if let Err(e) = com.vectorise()", "tsv preset writes commas (oligo)"),
    ("s22", ["C15"], "kmertools/src/args.rs", "            if command.w_size <= command.m_size && command.w_size > 0 {", "            if command.w_size < command.m_size && command.w_size > 0 {", "w == m accepted"),
    ("s23", ["C16"], "composition/src/oligo.rs", "vec.iter_mut().for_each(|el| *el /= f64::max(1_f64, total));\n        }\n        vec\n    }\n}\n\n#[cfg(feature", "vec.iter_mut().for_each(|el| *el /= total);\n        }\n        vec\n    }\n}\n\n#[cfg(feature", "max(1,total) guard removed: NaN rows for records without windows"),
    ("s24", ["C17"], "ktio/src/mmap.rs", "        .truncate(true)\n", "", "mapped output not truncated"),
    ("s25", ["C17"], "counter/src/lib.rs", "                for chunk in 0..self.chunks {", "                for chunk in 0..self.chunks.max(if std::path::Path::new(&format!(\"{}/temp_kmers.part_{}_chunk_{}\", self.out_dir, part, self.chunks)).exists() { self.chunks + 1 } else { 0 }) {", "merge also reads a stale next chunk file if present"),
    ("s26", ["C18"], "kmer/src/kmer_minimisers.rs", "                self.k_val_f = 0;\n                self.k_val_r = 0;\n                self.k_val_l = 0;", "                self.k_val_f = 0;\n                self.k_val_r = 0;", "k_val_l not reset at an ambiguous byte: w-mers spanning the byte are emitted"),
    ("s27", ["C07"], "counter/src/lib.rs", "                                        .entry(min_mer)\n                                        .and_modify(|v| *v += 1)\n                                        .or_insert(1);", "                                        .entry(min_mer)\n                                        .and_modify(|v| *v += 1)\n                                        .or_insert(1);\n                                    if record.n % 7 == 6 && total_kmers_so_far_clone.load(Ordering::Relaxed) > (1_000_000_000_f64 * self.memory_ceil_gb / 8.0) as u64 { break; }", "a record taken while the ceiling is crossed is cut short"),
    ("s28", ["C10"], "misc/src/minimisers.rs", "                        {\n                            buff_clone\n                                .lock()\n                                .unwrap()\n                                .write_all(mins.join(\"\\t\").as_bytes())\n                                .unwrap();\n                        }", "                        {\n                            let line = mins.join(\"\\t\");\n                            let (a, b) = line.split_at(line.len() / 2);\n                            buff_clone.lock().unwrap().write_all(a.as_bytes()).unwrap();\n                            buff_clone.lock().unwrap().write_all(b.as_bytes()).unwrap();\n                        }", "s2m line written in two lock acquisitions"),
    ("s29", ["C05", "C14"], "composition/src/oligo.rs", "                            let start_pos = kvec_str.len() * record.n;", "                            let start_pos = kvec_str.len() * (record.n ^ ((record.n >> 6) & 1));", "rows of records 64.. swapped pairwise"),
    ("s30", ["C08"], "coverage/src/lib.rs", "                        out_buffer.write_all(result.as_bytes()).unwrap();\n                        buffer.clear();\n                        total = 0;", "                        out_buffer.write_all(result.as_bytes()).unwrap();\n                        total = 0;\n                        if buffer.len() > 1 { buffer.clear(); } else { buffer.truncate(0); }", "benign rewrite (must NOT fire)"),
]

BENIGN = {"s02", "s08", "s18", "s30"}


def sh(cmd, **kw):
    return subprocess.run(cmd, shell=True, stdout=subprocess.PIPE, stderr=subprocess.STDOUT, **kw)


def main():
    only = None
    skip_tests = "--skip-tests" in sys.argv
    if "--only" in sys.argv:
        only = set(sys.argv[sys.argv.index("--only") + 1].split(","))
    if sh("git -C /repo status --porcelain --untracked-files=no").stdout.strip():
        print("refusing: /repo working tree is not clean")
        return 2
    rows = []
    try:
        for mid, props, path, old, new, note in M:
            if only and mid not in only:
                continue
            full = os.path.join("/repo", path)
            src = open(full).read()
            if src.count(old) != 1:
                print("%s: pattern occurs %d times in %s -- skipped" % (mid, src.count(old), path))
                rows.append((mid, props, "pattern-miss", {}, note))
                continue
            open(full, "w").write(src.replace(old, new))
            try:
                b = sh("cd /repo && cargo build --workspace --offline 2>&1 | tail -3")
                tests = "skipped"
                if not skip_tests:
                    t = sh("cd /repo && cargo test --workspace --no-fail-fast --offline 2>&1 | grep -E '^test result' | awk '{p+=$4; f+=$6} END {print p\" \"f}'")
                    tests = t.stdout.decode().strip()
                res = {}
                for p in props:
                    t0 = time.time()
                    r = sh("cd %s && bin/check %s --tier quick" % (VERIF, p))
                    out = r.stdout.decode()
                    sigs = sorted({l.split("sig=")[1].split(" ")[0] for l in out.splitlines() if l.startswith("VIOLATION") and "sig=" in l})
                    res[p] = {"exit": r.returncode, "sigs": sigs[:4], "s": round(time.time() - t0)}
                rows.append((mid, props, tests, res, note))
                print("%s tests=[%s] %s  :: %s" % (mid, tests, json.dumps(res), note), flush=True)
            finally:
                sh("git -C /repo checkout -- .")
    finally:
        sh("git -C /repo checkout -- .")
    killed = sum(1 for mid, props, tests, res, _ in rows if mid not in BENIGN and res and any(v["exit"] == 1 for v in res.values()))
    total = sum(1 for mid, *_ in rows if mid not in BENIGN)
    false_alarms = [mid for mid, props, tests, res, _ in rows if mid in BENIGN and res and any(v["exit"] != 0 for v in res.values())]
    print("SUMMARY: %d/%d breaking mutants detected; benign variants raising an alarm: %s" % (killed, total, false_alarms))
    json.dump([{"id": m, "props": p, "tests": t, "result": r, "note": n} for m, p, t, r, n in rows], open(os.path.join(VERIF, "cache", "selfmutants.json"), "w"), indent=1)
    return 0


if __name__ == "__main__":
    sys.exit(main())
