"""Build flavours and stage runners (DESIGN.md §2.3)."""
import json
import os
import re
import shutil
import signal
import subprocess
import sys
import time

VERIF = os.path.dirname(os.path.dirname(os.path.abspath(__file__)))
HARNESS = os.path.join(VERIF, "harness")
CACHE = os.path.join(VERIF, "cache")
REPO = "/repo"
REPLAY_DIR = os.path.join(VERIF, "replays")

# Validation tooling only (bin/seeded.py --worktree): KTVERIF_REPO=<scratch worktree> runs the same checks
# against a copy of the repository elsewhere, with its own harness copy, caches, evidence and replays, so that
# mutants can be tried without touching /repo.  The registered MANIFEST commands never set it.
if os.environ.get("KTVERIF_REPO"):
    import hashlib
    REPO = os.path.abspath(os.environ["KTVERIF_REPO"])
    _tag = hashlib.sha1(REPO.encode()).hexdigest()[:10]
    CACHE = os.path.join(VERIF, "cache", "alt-" + _tag)
    REPLAY_DIR = os.path.join(CACHE, "replays")
    _alt = os.path.join(CACHE, "harness")
    os.makedirs(CACHE, exist_ok=True)
    # regenerate the harness copy every time (cheap; keeps it in sync with /verif/harness)
    subprocess.call(["rm", "-rf", _alt])
    # from the *committed* harness (git HEAD), so that work in progress in /verif/harness cannot break a lane
    os.makedirs(_alt)
    _ar = subprocess.Popen(["git", "-C", VERIF, "archive", "HEAD", "harness"], stdout=subprocess.PIPE)
    subprocess.check_call(["tar", "-x", "-C", CACHE, "--strip-components=0"], stdin=_ar.stdout)
    _ar.wait()
    for _root, _dirs, _files in os.walk(_alt):
        for _f in _files:
            if _f in ("Cargo.toml", "config.toml"):
                _p = os.path.join(_root, _f)
                _t = open(_p).read().replace('"/repo/', '"%s/' % REPO).replace("/verif/cache/target-harness", os.path.join(CACHE, "target-harness"))
                open(_p, "w").write(_t)
    HARNESS = _alt
TARGET = "x86_64-unknown-linux-gnu"

MIRIFLAGS = "-Zmiri-disable-isolation -Zmiri-tree-borrows -Zmiri-permissive-provenance -Zmiri-ignore-leaks"


class BuildError(Exception):
    pass


class ToolMissing(Exception):
    pass


def base_env():
    env = dict(os.environ)
    env["CARGO_NET_OFFLINE"] = "true"
    env.setdefault("CARGO_TERM_COLOR", "never")
    env.pop("RUSTFLAGS", None)
    env.pop("CARGO_TARGET_DIR", None)
    return env


_built = {}


def _cargo(args, env, what, cwd=HARNESS, timeout=3600):
    t0 = time.time()
    try:
        p = subprocess.run(args, cwd=cwd, env=env, stdout=subprocess.PIPE, stderr=subprocess.STDOUT, timeout=timeout)
    except FileNotFoundError as e:
        raise ToolMissing(str(e))
    except subprocess.TimeoutExpired:
        raise BuildError("%s: build timed out" % what)
    if p.returncode != 0:
        tail = p.stdout.decode("utf-8", "replace")[-3000:]
        raise BuildError("%s: build failed (exit %d)\n%s" % (what, p.returncode, tail))
    return time.time() - t0


def ktmon(flavour):
    """Build (incrementally) and return the ktmon binary of a flavour."""
    if flavour in _built:
        return _built[flavour]
    env = base_env()
    if flavour == "R":
        env["CARGO_TARGET_DIR"] = os.path.join(CACHE, "target-harness")
        _cargo(["cargo", "build", "--release", "-p", "ktmon"], env, "ktmon[R]")
        path = os.path.join(CACHE, "target-harness", "release", "ktmon")
    elif flavour == "D":
        env["CARGO_TARGET_DIR"] = os.path.join(CACHE, "target-harness")
        _cargo(["cargo", "build", "--profile", "checked", "-p", "ktmon"], env, "ktmon[D]")
        path = os.path.join(CACHE, "target-harness", "checked", "ktmon")
    elif flavour == "O0":
        # unoptimised build (cargo's dev profile: opt-level 0, debug assertions, overflow checks): loads and stores that an
        # optimiser deletes as dead are really executed, so that a guard page or a precondition check can see them
        env["CARGO_TARGET_DIR"] = os.path.join(CACHE, "target-harness")
        _cargo(["cargo", "build", "-p", "ktmon"], env, "ktmon[O0]")
        path = os.path.join(CACHE, "target-harness", "debug", "ktmon")
    elif flavour == "A":
        env["CARGO_TARGET_DIR"] = os.path.join(CACHE, "target-asan")
        env["RUSTFLAGS"] = "-Zsanitizer=address -Cforce-frame-pointers=yes"
        _cargo(["cargo", "+nightly", "build", "--release", "--target", TARGET, "-p", "ktmon"], env, "ktmon[ASan]")
        path = os.path.join(CACHE, "target-asan", TARGET, "release", "ktmon")
    elif flavour == "T":
        env["CARGO_TARGET_DIR"] = os.path.join(CACHE, "target-tsan")
        env["RUSTFLAGS"] = "-Zsanitizer=thread -Cforce-frame-pointers=yes"
        _cargo(["cargo", "+nightly", "build", "-Zbuild-std", "--release", "--target", TARGET, "-p", "ktmon"], env, "ktmon[TSan]")
        path = os.path.join(CACHE, "target-tsan", TARGET, "release", "ktmon")
    else:
        raise BuildError("no ktmon flavour %s" % flavour)
    if not os.path.exists(path):
        raise BuildError("ktmon[%s] missing after build: %s" % (flavour, path))
    _built[flavour] = path
    return path


def cli():
    """The real kmertools binary (release, hooks off) built from /repo's working tree."""
    if "cli" in _built:
        return _built["cli"]
    env = base_env()
    tdir = os.path.join(CACHE, "target-repo")
    _cargo(["cargo", "build", "--release", "--offline", "-p", "kmertools", "--manifest-path", os.path.join(REPO, "Cargo.toml"),
            "--target-dir", tdir], env, "kmertools CLI", cwd=REPO)
    path = os.path.join(tdir, "release", "kmertools")
    if not os.path.exists(path):
        raise BuildError("CLI binary missing after build")
    _built["cli"] = path
    return path


def pymodule():
    """pykmertools cdylib built from the working tree; returns the directory to put on sys.path."""
    if "py" in _built:
        return _built["py"]
    env = base_env()
    tdir = os.path.join(CACHE, "target-repo")
    _cargo(["cargo", "build", "--release", "--offline", "-p", "pip", "--manifest-path", os.path.join(REPO, "Cargo.toml"),
            "--target-dir", tdir], env, "pykmertools cdylib", cwd=REPO)
    so = os.path.join(tdir, "release", "libpykmertools.so")
    if not os.path.exists(so):
        raise BuildError("libpykmertools.so missing after build")
    moddir = os.path.join(CACHE, "pymod")
    os.makedirs(moddir, exist_ok=True)
    dst = os.path.join(moddir, "pykmertools.so")
    tmp = dst + ".tmp%d" % os.getpid()
    shutil.copyfile(so, tmp)
    os.replace(tmp, dst)
    _built["py"] = moddir
    return moddir


SIGNAMES = {signal.SIGABRT: "SIGABRT", signal.SIGSEGV: "SIGSEGV", signal.SIGBUS: "SIGBUS", signal.SIGILL: "SIGILL",
            signal.SIGFPE: "SIGFPE", signal.SIGKILL: "SIGKILL", signal.SIGTERM: "SIGTERM"}

REPO_FRAME = re.compile(r"(%s/[A-Za-z_]+/src/[A-Za-z_/]+\.rs):(\d+)" % re.escape(REPO))


def _first_repo_frame(text):
    m = REPO_FRAME.search(text)
    if m:
        return m.group(1).replace(REPO + "/", "")
    return "unknown"


def _crash_result(prop, st, stderr_text, rc, work, pid_hint, seed):
    """Stage process died.  Decide: violation (crash inside the code under test), inconclusive or error."""
    out = {}
    cur = None
    for fn in os.listdir(work):
        if fn.startswith("current-") and fn.endswith(".json"):
            cur = os.path.join(work, fn)
    replay = "(no current-case record)"
    if cur:
        os.makedirs(REPLAY_DIR, exist_ok=True)
        dst = os.path.join(REPLAY_DIR, "%s-%s-seed%d-crash-%d.json" % (st["stage"].replace(".", "_"), st.get("flavour", "R"), seed, os.getpid()))
        try:
            case = json.load(open(cur))
        except Exception:
            case = {"raw": open(cur, errors="replace").read()[:2000]}
        json.dump({"stage": st["stage"], "flavour": st.get("flavour", "R"), "seed": seed, "case": case,
                   "stderr_tail": stderr_text[-4000:]}, open(dst, "w"))
        replay = dst
    sig = None
    if any(m in stderr_text for m in ("StorageFull", "No space left on device", "Os { code: 28", "os error 28")):
        out["status"] = "inconclusive"
        out["inconclusive"] = 1
        out["inconclusive_notes"] = ["environment: scratch space full (stage %s died: %s)" % (st["stage"], stderr_text.strip().splitlines()[-1][:200] if stderr_text.strip() else "")]
        return out
    if "unsafe precondition(s) violated" in stderr_text:
        m = re.search(r"unsafe precondition\(s\) violated: ([^\n]{0,80})", stderr_text)
        sig = "ub-precondition:" + (m.group(1).split(" requires")[0].strip().replace(" ", "_") if m else "unknown")
        msg = "std UB-precondition check fired: " + (m.group(0) if m else "")
    elif "AddressSanitizer" in stderr_text:
        m = re.search(r"ERROR: AddressSanitizer: ([a-z\-]+)", stderr_text)
        sig = "asan:%s:%s" % (m.group(1) if m else "error", _first_repo_frame(stderr_text))
        msg = "AddressSanitizer report: " + (m.group(0) if m else "")
    elif rc < 0 and -rc in (signal.SIGABRT, signal.SIGSEGV, signal.SIGBUS, signal.SIGILL, signal.SIGFPE):
        sig = "crash:%s" % SIGNAMES.get(-rc, str(-rc))
        tail = stderr_text.strip().splitlines()[-3:]
        msg = "monitor process died with %s while running the code under test: %s" % (SIGNAMES.get(-rc, -rc), " | ".join(tail))
    if sig:
        out["violations"] = [{"sig": sig, "msg": msg, "replay": replay}]
        out["violations_total"] = 1
        out["violations_by_sig"] = {sig: 1}
        out["status"] = "crashed"
        out["evaluations"] = 1
        return out
    if rc < 0 and -rc == signal.SIGKILL:
        out["status"] = "inconclusive"
        out["inconclusive"] = 1
        out["inconclusive_notes"] = ["stage killed (SIGKILL: watchdog or out of memory)"]
        return out
    out["status"] = "error"
    out["error"] = "stage exited with %s; stderr tail: %s" % (rc, stderr_text[-1500:])
    return out


def run_ktmon_stage(prop, st, tier, seed, work, flavour, extra_env=None, extra_args=None, pre=None, tag=None):
    binary = ktmon(flavour)
    build_flavour = flavour
    # files and scratch directory of this stage run are named after the *plan* flavour (VM and V run the R binary, and
    # stages of one check may run concurrently)
    flavour = tag or st.get("flavour", flavour)
    if st.get("env"):
        flavour += "".join("-%s" % v for _, v in sorted(st["env"].items()))
    budget = st.get("budget", {}).get(tier, 600 if tier == "quick" else 3600) if isinstance(st.get("budget"), dict) else st.get("budget", 600 if tier == "quick" else 3600)
    outp = os.path.join(work, "result-%s-%s.json" % (st["stage"], flavour))
    errp = os.path.join(work, "stderr-%s-%s.txt" % (st["stage"], flavour))
    swork = os.path.join(work, "w-%s-%s" % (st["stage"], flavour))
    os.makedirs(swork, exist_ok=True)
    args = [binary, st["stage"], "--seed", str(seed), "--tier", tier, "--work", swork, "--replay-dir", REPLAY_DIR,
            "--out", outp, "--flavour", build_flavour, "--budget", str(budget)]
    if st.get("scale"):
        sc = st["scale"].get(tier, 1.0) if isinstance(st["scale"], dict) else st["scale"]
        if flavour != "R" and isinstance(st.get("scale_by_flavour"), dict):
            sc *= st["scale_by_flavour"].get(flavour, 1.0)
        args += ["--scale", str(sc)]
    elif isinstance(st.get("scale_by_flavour"), dict) and flavour in st["scale_by_flavour"]:
        args += ["--scale", str(st["scale_by_flavour"][flavour])]
    if st.get("needs_cli"):
        args += ["--cli", cli()]
    for k, v in (st.get("opts") or {}).items():
        args += ["--opt", "%s=%s" % (k, v)]
    if extra_args:
        args += extra_args
    if pre:
        args = pre + args
    env = base_env()
    env["RUST_BACKTRACE"] = "0"
    if extra_env:
        env.update(extra_env)
    # the system temporary directory is deliberately on another filesystem than the scratch space (/dev/shm): staging an
    # output "in the temp dir" and renaming it into place only works on one filesystem
    tmpd = os.path.join(CACHE, "tmp")
    os.makedirs(tmpd, exist_ok=True)
    env["TMPDIR"] = tmpd
    # per-stage environment from the plan (e.g. RAYON_NUM_THREADS for the size of the global pool)
    for k, v in (st.get("env") or {}).items():
        env[k] = str(v)
    watchdog = budget * 3 + 120
    t0 = time.time()
    with open(errp, "wb") as ef:
        try:
            p = subprocess.Popen(args, env=env, stdout=ef, stderr=ef, cwd=swork)
        except FileNotFoundError as e:
            raise ToolMissing(str(e))
        try:
            rc = p.wait(timeout=watchdog)
        except subprocess.TimeoutExpired:
            p.kill()
            p.wait()
            shutil.rmtree(swork, ignore_errors=True)
            return {"status": "inconclusive", "inconclusive": 1,
                    "inconclusive_notes": ["watchdog (%ds) fired for stage %s" % (watchdog, st["stage"])]}
    stderr_text = open(errp, errors="replace").read()
    if rc != 0 or not os.path.exists(outp):
        r = _crash_result(prop, st, stderr_text, rc, swork, p.pid, seed)
        shutil.rmtree(swork, ignore_errors=True)
        return r
    try:
        res = json.load(open(outp))
    except Exception as e:
        shutil.rmtree(swork, ignore_errors=True)
        return {"status": "error", "error": "unparseable stage result: %s" % e}
    shutil.rmtree(swork, ignore_errors=True)
    res["status"] = "ok" if not res.get("truncated") else "truncated"
    if st.get("env"):
        res.setdefault("extra", {})["stage_environment"] = dict(st["env"])
    res["_stderr"] = stderr_text
    return res


def run_R(prop, st, tier, seed, work):
    r = run_ktmon_stage(prop, st, tier, seed, work, "R")
    r.pop("_stderr", None)
    return r


def run_D(prop, st, tier, seed, work):
    r = run_ktmon_stage(prop, st, tier, seed, work, "D")
    r.pop("_stderr", None)
    return r


def run_O0(prop, st, tier, seed, work):
    r = run_ktmon_stage(prop, st, tier, seed, work, "O0")
    r.pop("_stderr", None)
    return r


def run_A(prop, st, tier, seed, work):
    env = {"ASAN_OPTIONS": "detect_leaks=0:abort_on_error=1:halt_on_error=1:symbolize=1",
           "ASAN_SYMBOLIZER_PATH": shutil.which("llvm-symbolizer") or shutil.which("llvm-symbolizer-14") or ""}
    r = run_ktmon_stage(prop, st, tier, seed, work, "A", extra_env=env)
    r.pop("_stderr", None)
    return r


TSAN_BLOCK = re.compile(r"WARNING: ThreadSanitizer: ([^\n]*)\n(.*?)\n(?:=+\n|SUMMARY: ThreadSanitizer[^\n]*\n)", re.S)
RUNTIME_FRAME = re.compile(r"(__tsan|__interceptor|libtsan|/rustc/|/library/(std|core|alloc)/|tsan_)")


def _tsan_reports(text):
    """Split a TSan log into reports; each -> (kind, [top frame of each access stack])."""
    reports = []
    for m in TSAN_BLOCK.finditer(text):
        kind = m.group(1).strip()
        body = m.group(2)
        stacks = re.split(r"\n\s*\n", body)
        tops = []
        for s in stacks:
            lines = s.strip().splitlines()
            if not lines:
                continue
            head = lines[0]
            if not re.search(r"(Write|Read|Previous|Atomic) ", head, re.I):
                continue
            frames = [l for l in lines[1:] if re.match(r"\s*#\d+", l)]
            # innermost frame that is not sanitizer runtime / std internals
            top = None
            for f in frames:
                if RUNTIME_FRAME.search(f):
                    continue
                top = f.strip()
                break
            tops.append(top or (frames[0].strip() if frames else "?"))
        reports.append((kind, tops, body))
    return reports


def run_T(prop, st, tier, seed, work):
    logp = os.path.join(work, "tsan-%s" % st["stage"])
    env = {"TSAN_OPTIONS": "halt_on_error=0:exitcode=0:report_signal_unsafe=0:history_size=4:second_deadlock_stack=1:log_path=%s" % logp}
    r = run_ktmon_stage(prop, st, tier, seed, work, "T", extra_env=env)
    r.pop("_stderr", None)
    text = ""
    for fn in os.listdir(work):
        if fn.startswith(os.path.basename(logp)):
            text += open(os.path.join(work, fn), errors="replace").read()
            os.remove(os.path.join(work, fn))
    reports = _tsan_reports(text)
    in_repo = []
    noise = 0
    for kind, tops, body in reports:
        if "data race" not in kind:
            noise += 1
            continue
        if len(tops) >= 2 and all(t and (REPO + "/") in t for t in tops[:2]):
            in_repo.append((kind, tops, body))
        else:
            noise += 1
    r.setdefault("extra", {})
    r["extra"]["tsan_reports_total"] = len(reports)
    r["extra"]["tsan_dependency_noise"] = noise
    r["extra"]["tsan_reports_in_repo_code"] = len(in_repo)
    if in_repo:
        os.makedirs(REPLAY_DIR, exist_ok=True)
        seen = set()
        for kind, tops, body in in_repo:
            key = tuple(re.sub(r":\d+", "", t.split(" ")[-1] if " " in t else t) for t in tops[:2])
            if key in seen:
                continue
            seen.add(key)
            dst = os.path.join(REPLAY_DIR, "%s-T-seed%d-%d-%d.txt" % (st["stage"].replace(".", "_"), seed, os.getpid(), len(seen)))
            open(dst, "w").write("WARNING: ThreadSanitizer: %s\n%s\n" % (kind, body))
            sig = "tsan:" + "|".join(_first_repo_frame(t) for t in tops[:2])
            r.setdefault("violations", []).append({"sig": sig, "msg": "ThreadSanitizer data race with both accesses in repository code: %s" % " / ".join(tops[:2]), "replay": dst})
            r["violations_total"] = r.get("violations_total", 0) + 1
            r.setdefault("violations_by_sig", {})[sig] = r.get("violations_by_sig", {}).get(sig, 0) + 1
    return r


def run_V(prop, st, tier, seed, work):
    """ktmon stage that itself launches the CLI under valgrind (flag passed through --opt)."""
    if not shutil.which("valgrind"):
        raise ToolMissing("valgrind")
    st = dict(st)
    st["opts"] = dict(st.get("opts") or {}, valgrind="1")
    r = run_ktmon_stage(prop, st, tier, seed, work, "R")
    r.pop("_stderr", None)
    r["flavour"] = "V"
    return r


REPO_CRATES = ("kmer::", "ktio::", "composition::", "counter::", "coverage::", "misc::", "kmertools::", "pybindings::")
VG_KINDS = ("Invalid read", "Invalid write", "Invalid free", "Mismatched free", "Source and destination overlap", "Jump to the invalid address")


def parse_memcheck_log(text):
    """memcheck log of the monitor process -> (reports attributed to repository code, reports elsewhere, uninitialised-value
    reports in repository code).  A report is attributed to the repository when a frame of its access stack — or of the
    allocation / release stack of the block it names — lies in one of the repository's crates; reports wholly inside the
    monitor, std or dependencies are counted, never judged."""
    blocks, cur = [], []
    for line in text.splitlines():
        body = re.sub(r"^==\d+== ?", "", line)
        if not body.strip():
            if cur:
                blocks.append(cur)
            cur = []
        else:
            cur.append(body)
    if cur:
        blocks.append(cur)
    mine, other, uninit = [], 0, 0
    i = 0
    while i < len(blocks):
        b = blocks[i]
        head = b[0]
        is_addr = any(head.startswith(k) for k in VG_KINDS)
        is_uninit = "uninitialised" in head
        if not (is_addr or is_uninit):
            i += 1
            continue
        lines = list(b[1:])
        if i + 1 < len(blocks) and blocks[i + 1][0].lstrip().startswith("Address 0x"):
            lines += blocks[i + 1]
            i += 1
        i += 1
        frames = [l.strip() for l in lines if l.lstrip().startswith(("at 0x", "by 0x"))]
        repo_frames = [f for f in frames if (REPO + "/") in f or any((": " + c) in f or (" " + c) in f or ("<" + c) in f for c in REPO_CRATES)]
        if not repo_frames:
            other += 1
            continue
        if is_uninit:
            uninit += 1
            continue
        fn = re.sub(r"^(at|by) 0x[0-9A-Fa-f]+: ", "", repo_frames[0])
        fn = re.sub(r" \(.*\)$", "", fn)
        fn = re.sub(r"::h[0-9a-f]{16}$", "", fn)
        addr = next((l.strip() for l in lines if l.lstrip().startswith("Address 0x")), "")
        mine.append({"kind": " ".join(head.split()[:2]), "head": head, "frame": fn, "address": addr, "stack": frames[:10]})
    return mine, other, uninit


def run_VM(prop, st, tier, seed, work):
    """the monitor stage itself under valgrind memcheck (release build, one worker thread, tiny scale): heap overruns into
    allocator slack, reads of released memory and the like inside the code under test, whatever the outputs are"""
    if not shutil.which("valgrind"):
        raise ToolMissing("valgrind")
    logp = os.path.join(work, "memcheck-%s.log" % st["stage"])
    pre = ["valgrind", "--tool=memcheck", "--error-exitcode=0", "--leak-check=no", "--num-callers=30", "--error-limit=no", "--fullpath-after=", "--log-file=" + logp]
    r = run_ktmon_stage(prop, st, tier, seed, work, "R", extra_args=["--threads", "2"], pre=pre)
    r.pop("_stderr", None)
    r["flavour"] = "VM"
    try:
        text = open(logp, errors="replace").read()
    except OSError:
        text = None
    if text is None:
        r["inconclusive"] = r.get("inconclusive", 0) + 1
        r.setdefault("inconclusive_notes", []).append("no memcheck log")
        return r
    mine, other, uninit = parse_memcheck_log(text)
    r.setdefault("extra", {})
    r["extra"]["memcheck_reports_in_repository_code"] = len(mine)
    r["extra"]["memcheck_reports_elsewhere_not_judged"] = other
    r["extra"]["memcheck_uninitialised_in_repository_code_not_judged"] = uninit
    if mine:
        os.makedirs(REPLAY_DIR, exist_ok=True)
        vs = r.setdefault("violations", [])
        by = r.setdefault("violations_by_sig", {})
        for n, rep in enumerate(mine):
            sig = "memcheck:%s:%s" % (rep["kind"], rep["frame"][:90])
            by[sig] = by.get(sig, 0) + 1
            if by[sig] > 2:
                continue
            dst = os.path.join(REPLAY_DIR, "%s-VM-seed%d-%d-%d.json" % (st["stage"].replace(".", "_"), seed, os.getpid(), n))
            json.dump({"stage": st["stage"], "flavour": "VM", "seed": seed, "sig": sig, "report": rep,
                       "how": "valgrind memcheck on `ktmon %s --seed %d --tier %s --threads 2` (release build)" % (st["stage"], seed, tier)}, open(dst, "w"), indent=1)
            vs.append({"sig": sig, "msg": "valgrind memcheck: %s in %s %s" % (rep["head"], rep["frame"], rep["address"]), "replay": dst})
        r["violations_total"] = r.get("violations_total", 0) + len(mine)
    return r


def run_M(prop, st, tier, seed, work):
    """Miri shard: cargo +nightly miri test -p ktmiri <filter>."""
    env = base_env()
    env["CARGO_TARGET_DIR"] = os.path.join(CACHE, "target-miri")
    n = st.get("n", {}).get(tier, 60) if isinstance(st.get("n"), dict) else st.get("n", 60)
    # parameters go through -Zmiri-env-set: cargo-miri replays the environment captured when the test
    # binary was first built, so plain environment variables would be stale
    env["MIRIFLAGS"] = MIRIFLAGS + " -Zmiri-env-set=KTMIRI_SEED=%d -Zmiri-env-set=KTMIRI_N=%d" % (seed, n)
    env.pop("KTMIRI_SEED", None)
    env.pop("KTMIRI_N", None)
    filt = st["stage"].split(".", 1)[1] if st["stage"].startswith("miri.") else st["stage"]
    budget = st.get("budget", {}).get(tier, 900) if isinstance(st.get("budget"), dict) else st.get("budget", 900)
    args = ["cargo", "+nightly", "miri", "test", "-p", "ktmiri", "--", filt, "--nocapture", "--test-threads", str(st.get("test_threads", 8))]
    t0 = time.time()
    try:
        p = subprocess.run(args, cwd=HARNESS, env=env, stdout=subprocess.PIPE, stderr=subprocess.STDOUT, timeout=budget * 3 + 300)
    except subprocess.TimeoutExpired:
        return {"status": "inconclusive", "inconclusive": 1, "inconclusive_notes": ["miri watchdog fired"]}
    except FileNotFoundError as e:
        raise ToolMissing(str(e))
    text = p.stdout.decode("utf-8", "replace")
    res = {"evaluations": 0, "nontrivial": 0, "distinct_nontrivial": 0, "violations": [], "violations_total": 0,
           "violations_by_sig": {}, "samples": [], "classes": {}, "extra": {}, "inconclusive": 0, "inconclusive_notes": []}
    # tests print lines: KTMIRI <name> cases=<n> distinct=<d> sample=<json>
    for m in re.finditer(r"KTMIRI (\S+) cases=(\d+) distinct=(\d+) sample=(.*)", text):
        res["evaluations"] += int(m.group(2))
        res["nontrivial"] += int(m.group(2))
        res["distinct_nontrivial"] += int(m.group(3))
        res["classes"][m.group(1)] = int(m.group(2))
        try:
            res["samples"].append(json.loads(m.group(4)))
        except Exception:
            res["samples"].append(m.group(4)[:200])
    m = re.search(r"test result: (\w+)\. (\d+) passed; (\d+) failed", text)
    res["extra"]["miri_tests_passed"] = int(m.group(2)) if m else 0
    res["extra"]["miriflags"] = MIRIFLAGS
    ub = re.search(r"error: Undefined Behavior: ([^\n]*)", text)
    race = re.search(r"error: Undefined Behavior: Data race[^\n]*", text)
    if p.returncode != 0:
        os.makedirs(REPLAY_DIR, exist_ok=True)
        dst = os.path.join(REPLAY_DIR, "%s-M-seed%d-%d.txt" % (st["stage"].replace(".", "_"), seed, os.getpid()))
        open(dst, "w").write(text[-20000:])
        first_span = re.search(r"error: Undefined Behavior[^\n]*\n\s*--> ([^\n]+)", text)
        if (ub or race) and first_span and ("/.cargo/registry/" in first_span.group(1) or "/rustlib/" in first_span.group(1)):
            # the offending access is inside a dependency / std, not in repository code: noise by the
            # rule of DESIGN.md 2.3 (same filter as for TSan), reported as inconclusive
            res["inconclusive"] = 1
            res["inconclusive_notes"] = ["Miri report located in a dependency (%s): %s" % (first_span.group(1).strip()[:120], (ub or race).group(0)[:160])]
            res["status"] = "inconclusive"
            return res
        if ub or race:
            frame = _first_repo_frame(text[text.find("error: Undefined Behavior"):])
            sig = "miri:%s:%s" % ("data-race" if race else "ub", frame)
            res["violations"].append({"sig": sig, "msg": "Miri: " + (ub.group(0) if ub else race.group(0)), "replay": dst})
        elif re.search(r"test result: FAILED|panicked at", text):
            mm = re.search(r"panicked at ([^\n]*)\n([^\n]*)", text)
            sig = "miri:test-failed:" + (_first_repo_frame(text) if (REPO + "/") in text else "oracle")
            res["violations"].append({"sig": sig, "msg": "Miri shard assertion failed: " + (mm.group(0)[:300] if mm else ""), "replay": dst})
        else:
            return {"status": "error", "error": "miri run failed without a recognisable report: " + text[-1500:]}
        res["violations_total"] = len(res["violations"])
        for v in res["violations"]:
            res["violations_by_sig"][v["sig"]] = 1
        res["evaluations"] = max(res["evaluations"], 1)
        res["status"] = "crashed"
        return res
    res["status"] = "ok"
    return res


def run_PY(prop, st, tier, seed, work):
    """Python-binding stage: py/pycheck.py <mode> driven by python3-vt (falls back to python3)."""
    moddir = pymodule()
    binary = ktmon("R")
    py = shutil.which("python3-vt") or shutil.which("python3")
    if not py:
        raise ToolMissing("python3")
    outp = os.path.join(work, "pyresult-%s.json" % st["stage"])
    budget = st.get("budget", {}).get(tier, 600) if isinstance(st.get("budget"), dict) else st.get("budget", 600)
    args = [py, os.path.join(VERIF, "py", "pycheck.py"), st["stage"], "--seed", str(seed), "--tier", tier,
            "--moddir", moddir, "--ktmon", binary, "--out", outp, "--replay-dir", REPLAY_DIR, "--work", work]
    for k, v in (st.get("opts") or {}).items():
        args += ["--opt", "%s=%s" % (k, v)]
    env = base_env()
    try:
        p = subprocess.run(args, env=env, stdout=subprocess.PIPE, stderr=subprocess.STDOUT, timeout=budget * 3 + 120)
    except subprocess.TimeoutExpired:
        return {"status": "inconclusive", "inconclusive": 1, "inconclusive_notes": ["python stage watchdog fired"]}
    if p.returncode != 0 or not os.path.exists(outp):
        return {"status": "error", "error": "pycheck failed (exit %s): %s" % (p.returncode, p.stdout.decode("utf-8", "replace")[-2000:])}
    res = json.load(open(outp))
    res["status"] = "ok"
    return res


RUNNERS = {"R": run_R, "D": run_D, "O0": run_O0, "A": run_A, "T": run_T, "V": run_V, "VM": run_VM, "M": run_M, "PY": run_PY}


def replay(path):
    """bin/check --replay <file>: re-run the stored concrete case through the stage's monitor."""
    try:
        j = json.load(open(path))
    except Exception as e:
        print("ERROR: cannot read replay file: %s" % e)
        return 2
    flavour = j.get("flavour", "R")
    if flavour not in ("R", "D"):
        flavour = "R"
    binary = ktmon(flavour)
    work = os.path.join("/dev/shm", "ktverif", "replay-%d" % os.getpid())
    os.makedirs(work, exist_ok=True)
    outp = os.path.join(work, "out.json")
    try:
        extra = []
        try:
            extra = ["--cli", cli()]
        except BuildError:
            pass
        rc = subprocess.call([binary, "replay", "--replay", path, "--out", outp, "--work", work, "--replay-dir", work] + extra)
        if rc != 0 or not os.path.exists(outp):
            print("VIOLATION property=%s replay=%s (monitor process died with %s on this case)" % (j.get("stage", "?")[:3].upper(), path, rc))
            return 1
        res = json.load(open(outp))
        if res["violations_total"]:
            for v in res["violations"]:
                print("VIOLATION property=%s replay=%s sig=%s :: %s" % (j.get("stage", "?")[:3].upper(), path, v["sig"], v["msg"]))
            return 1
        if res["inconclusive"]:
            print("INCONCLUSIVE: %s" % "; ".join(res["inconclusive_notes"]))
            return 0
        print("HELD on replayed case %s" % path)
        return 0
    finally:
        shutil.rmtree(work, ignore_errors=True)
