"""Pure-Python reference model for the Python-binding monitor (second opinion next to the Rust
refmodel; the two are cross-checked in setup).  Written from the property statements, text level."""
from fractions import Fraction

DIGIT = {ord('A'): 0, ord('a'): 0, ord('C'): 1, ord('c'): 1, ord('G'): 2, ord('g'): 2,
         ord('T'): 3, ord('t'): 3, ord('U'): 3, ord('u'): 3}
COMP = {0: 3, 1: 2, 2: 1, 3: 0}


def encode(window):
    v = 0
    for b in window:
        d = DIGIT.get(b)
        if d is None:
            return None
        v = v * 4 + d
    return v


def decode(x, k):
    s = []
    for _ in range(k):
        s.append("ACGT"[x % 4])
        x //= 4
    return "".join(reversed(s))


def rc_code(x, k):
    digits = []
    for _ in range(k):
        digits.append(x % 4)
        x //= 4
    # digits[0] is the last base; reverse complement reads complemented bases from the end
    v = 0
    for d in digits:
        v = v * 4 + COMP[d]
    return v


def kmer_pairs(data, k):
    out = []
    for i in range(0, len(data) - k + 1):
        c = encode(data[i:i + k])
        if c is not None:
            out.append((c, rc_code(c, k)))
    return out


def canonical_list(k):
    return [x for x in range(4 ** k) if x <= rc_code(x, k)]


def oligo_counts(data, k):
    cols = canonical_list(k)
    idx = {c: i for i, c in enumerate(cols)}
    counts = [0] * len(cols)
    total = 0
    for f, r in kmer_pairs(data, k):
        counts[idx[min(f, r)]] += 1
        total += 1
    return counts, total


def minimiser_runs(data, w, m):
    out = []
    if m == 0 or w < m or len(data) < w:
        return out
    mm = []
    for i in range(0, len(data) - m + 1):
        c = encode(data[i:i + m])
        mm.append(None if c is None else min(c, rc_code(c, m)))
    prev_valid = False
    for s in range(0, len(data) - w + 1):
        if encode(data[s:s + w]) is None:
            prev_valid = False
            continue
        mn = min(mm[s:s + w - m + 1])
        if prev_valid and out[-1][0] == mn:
            out[-1] = (mn, out[-1][1], s + w)
        else:
            out.append((mn, s, s + w))
        prev_valid = True
    return out


CORNER = {'A': (0, 0), 'C': (0, 1), 'G': (1, 1), 'T': (1, 0), 'U': (1, 0)}


def cgr_exact(text, size, limit=None):
    """list of (Fraction, Fraction) or None when a non-nucleotide character occurs"""
    x = Fraction(size, 2)
    y = Fraction(size, 2)
    out = []
    for ch in text:
        c = CORNER.get(ch.upper()) if len(ch) == 1 and ch.isascii() else None
        if c is None:
            return None
        if limit is None or len(out) < limit:
            x = (c[0] * size + x) / 2
            y = (c[1] * size + y) / 2
            out.append((x, y))
    return out
