#!/usr/bin/env python3
"""Python-binding monitor (C13, and the Python observation points of C01/C03/C04/C09/C11).

Parent mode (called by bin/builds.py):
    pycheck.py <stage> --seed N --tier T --moddir DIR --ktmon BIN --out FILE --replay-dir DIR --work DIR
splits the stage into groups, runs every group in a *child interpreter* (so that an interpreter
crash is an observation, not the end of the run) under a chosen RAYON_NUM_THREADS, merges the results.

Oracle: the Rust core itself (`ktmon core-eval`, built from the same working tree) — exact equality,
same arithmetic — plus the pure-Python reference model (py/refmodel.py) as second opinion.
"""
import gc
import json
import os
import random
import re
import shutil
import signal
import subprocess
import sys
import time

HERE = os.path.dirname(os.path.abspath(__file__))
sys.path.insert(0, HERE)
import refmodel  # noqa: E402

STAGES = ["py.kmers", "py.min", "py.oligo", "py.header", "py.cgr", "py.batch", "py.lifetime", "py.acgt", "py.large", "py.models", "py.vg"]


# ------------------------------------------------------------------------------------------------
# generators

NUC = "ACGT"
MIXED = "ACGTUacgtu"
AMBIG = "NnRYKMSW-.*"
UNICODE_POOL = [
    "é", "ß", "Δ", "Ж", "中", "文", "あ", "́", "̈", "​", "‍", "﻿",
    "\U0001F9EC", "\U0001F600", "\U00010348", "\U0002070E", "Ā", "߿", "ࠀ", "￿", "\x7f", "\x80", "\xff",
    "\x04", "\x1f", " ", "\t", "\n", ">", "@",
]
# non-ASCII characters whose code point has a nucleotide letter as its low byte / low bits: a binding
# that narrows code points (or masks bytes) instead of walking the UTF-8 bytes would accept them
CONFUSABLE = [chr(0x100 * hi + ord(c)) for hi in (1, 2, 0x1F3, 0x4E) for c in "ACGTUacgtu"] + \
             [chr(0x10000 + 0x100 * hi + ord(c)) for hi in (0xF3, 0x02) for c in "ACGTacgt"]
UNICODE_POOL = UNICODE_POOL + CONFUSABLE


def _casemap_specials():
    """code points whose upper/lower/title form has a different UTF-8 length or turns into ASCII letters:
    a binding that case-normalises the *string* (instead of leaving the bytes alone) shifts positions or
    even injects real bases"""
    out = []
    for cp in range(0x80, 0x1F000):
        if 0xD800 <= cp <= 0xDFFF:
            continue
        c = chr(cp)
        for f in (c.upper(), c.lower(), c.casefold()):
            if f != c and (len(f.encode("utf-8")) != len(c.encode("utf-8")) or any(ch in "ACGTUacgtu" for ch in f)):
                out.append(c)
                break
    return out


CASEMAP = _casemap_specials()
UNICODE_POOL = UNICODE_POOL + CASEMAP[:: max(1, len(CASEMAP) // 60)]


def gen_string(rng, max_len=200):
    cls = rng.choice(["nuc", "nuc", "mixed", "withN", "unicode", "unicode-heavy", "ascii", "empty", "homopolymer", "period"])
    n = rng.choice([0, 1, 2, 3, rng.randint(0, 40), rng.randint(0, max_len)])
    if cls == "empty":
        return cls, ""
    if cls == "nuc":
        return cls, "".join(rng.choice(NUC) for _ in range(n))
    if cls == "mixed":
        return cls, "".join(rng.choice(MIXED) for _ in range(n))
    if cls == "withN":
        return cls, "".join(rng.choice(AMBIG) if rng.random() < 0.1 else rng.choice(MIXED) for _ in range(n))
    if cls == "unicode":
        return cls, "".join(rng.choice(UNICODE_POOL) if rng.random() < 0.1 else rng.choice(MIXED) for _ in range(n))
    if cls == "unicode-heavy":
        out = []
        for _ in range(n):
            r = rng.random()
            if r < 0.5:
                out.append(rng.choice(UNICODE_POOL))
            elif r < 0.6:
                cp = rng.randint(4, 0x10FFFF)
                if 0xD800 <= cp <= 0xDFFF:
                    cp = 0x4E00
                out.append(chr(cp))
            else:
                out.append(rng.choice(MIXED))
        return cls, "".join(out)
    if cls == "ascii":
        return cls, "".join(chr(rng.randint(4, 126)) for _ in range(n))
    if cls == "homopolymer":
        return cls, rng.choice(MIXED) * n
    a, b, c = rng.choice(NUC), rng.choice(NUC), rng.choice(NUC)
    return cls, "".join((a, b, c)[i % 3] for i in range(n))


def gen_nuc(rng, max_len=150):
    n = rng.choice([0, 1, 2, rng.randint(0, 60), rng.randint(0, max_len)])
    return "".join(rng.choice(MIXED) for _ in range(n))


# ------------------------------------------------------------------------------------------------
# result bookkeeping (same shape as a ktmon stage result)

class Result:
    def __init__(self, stage):
        self.stage = stage
        self.evaluations = 0
        self.nontrivial = 0
        self.distinct = set()
        self.violations = []
        self.viol_by_sig = {}
        self.violations_total = 0
        self.inconclusive = 0
        self.inconclusive_notes = []
        self.samples = []
        self.classes = {}
        self.extra = {}

    def case(self, nontrivial, key):
        self.evaluations += 1
        if nontrivial:
            self.nontrivial += 1
            self.distinct.add(hash(key))

    def cls(self, name, n=1):
        self.classes[name] = self.classes.get(name, 0) + n

    def violate(self, sig, msg, case):
        self.violations_total += 1
        self.viol_by_sig[sig] = self.viol_by_sig.get(sig, 0) + 1
        if self.viol_by_sig[sig] <= 3:
            self.violations.append({"sig": sig, "msg": msg, "case": case})

    def sample(self, s):
        if len(self.samples) < 4:
            self.samples.append(s)

    def to_json(self):
        return {"stage": self.stage, "flavour": "PY", "evaluations": self.evaluations, "nontrivial": self.nontrivial,
                "distinct_nontrivial": len(self.distinct), "distinct_keys": list(self.distinct),
                "violations": self.violations, "violations_total": self.violations_total,
                "violations_by_sig": self.viol_by_sig, "inconclusive": self.inconclusive,
                "inconclusive_notes": self.inconclusive_notes, "samples": self.samples, "classes": self.classes,
                "extra": self.extra}


def core_eval(ktmon, work, cases, tag, reference=False):
    """run `ktmon core-eval` (or ref-eval) on a list of case dicts; returns list of results"""
    inp = os.path.join(work, "cases-%s-%d.jsonl" % (tag, os.getpid()))
    outp = os.path.join(work, "results-%s-%d.jsonl" % (tag, os.getpid()))
    with open(inp, "w") as f:
        for c in cases:
            f.write(json.dumps(c, ensure_ascii=True) + "\n")
    swork = os.path.join(work, "ce-%d" % os.getpid())
    os.makedirs(swork, exist_ok=True)
    rc = subprocess.call([ktmon, "ref-eval" if reference else "core-eval", "--work", swork, "--replay-dir", swork,
                          "--out", os.path.join(swork, "stage.json"), "--opt", "in=" + inp, "--opt", "out=" + outp],
                         stdout=subprocess.DEVNULL, stderr=subprocess.PIPE)
    if rc != 0 or not os.path.exists(outp):
        raise RuntimeError("ktmon core-eval failed (rc=%s)" % rc)
    res = [json.loads(l) for l in open(outp) if l.strip()]
    for p in (inp, outp):
        try:
            os.remove(p)
        except OSError:
            pass
    subprocess.call(["rm", "-rf", swork])
    if len(res) != len(cases):
        raise RuntimeError("core-eval returned %d results for %d cases" % (len(res), len(cases)))
    return res


def short(s, n=120):
    return s if len(s) <= n else s[:n] + "...(%d chars)" % len(s)


# ------------------------------------------------------------------------------------------------
# child groups


def iterator_object_checks(R, make, make_other, got, sig, case):
    """Beyond one plain pass: an exhausted object stays exhausted (also through a new iter()), next() followed by a for
    loop continues where it stopped, and two objects alive at the same time and advanced in turn each behave as if alone.
    Returns False after reporting a violation."""
    try:
        g = make()
        plain = [tuple(x) for x in g]
        again = [tuple(x) for x in g]
        if again:
            R.violate(sig + ".restarted", "a second pass over the same (exhausted) object yields %d items again" % len(again), case)
            return False
        if len(got) >= 2:
            g = make()
            first = tuple(next(g))
            rest = [tuple(x) for x in g]
            if [first] + rest != got:
                R.violate(sig + ".iter_after_next", "next() followed by a for loop over the same object delivers %d items, a plain pass %d" % (1 + len(rest), len(got)), case)
                return False
        a, b = make(), make_other()
        solo_b = [tuple(x) for x in make_other()]
        ga, gb, da, db = [], [], False, False
        while not (da and db):
            if not da:
                try:
                    ga.append(tuple(next(a)))
                except StopIteration:
                    da = True
            if not db:
                try:
                    gb.append(tuple(next(b)))
                except StopIteration:
                    db = True
        if ga != plain or gb != solo_b or plain != got:
            R.violate(sig + ".two_objects_alive", "two generator objects advanced in turn deliver %d / %d items, alone %d / %d" % (len(ga), len(gb), len(plain), len(solo_b)), case)
            return False
    except BaseException as e:  # noqa: BLE001
        R.violate(sig + ".exception", "iterator object misbehaved: %r" % (e,), case)
        return False
    return True


def child_kmers(pk, rng, n, R, ktmon, work):
    cases = []
    for i in range(n):
        cls, s = (gen_string(rng) if i % 5 else directed_special(rng)) if i % 11 else directed_affix(rng)
        k = (i % 31) + 1
        if i % 250 == 17:
            # the number of items is exactly (or one off) a power of two / a typical prefetch block size
            items = rng.choice([255, 256, 1024, 4095, 4096, 4097, 8192, 65536]) + rng.choice([0, 0, 0, -1, 1])
            cls, s = "clean, %d-ish items" % (1 << (items.bit_length() - 1)), "".join(rng.choice(NUC) for _ in range(items + k - 1))
        cases.append({"op": "kmers", "seq": s, "k": k, "_cls": cls})
    core = core_eval(ktmon, work, cases, "kmers")
    for c, exp in zip(cases, core):
        s, k = c["seq"], c["k"]
        data = s.encode("utf-8")
        R.case(len(data) >= k, (s, k))
        R.cls(c["_cls"])
        case = {"seq": s, "k": k}
        if isinstance(exp, dict):
            R.violate("py.core_failed", "core failed on this input: %s" % exp, case)
            continue
        try:
            # the documented signature (pykmertools.pyi) names the parameters: keyword calls must work too
            gen = pk.KmerGenerator(seq=s, ksize=k) if R.evaluations % 3 == 0 else pk.KmerGenerator(s, k)
            got = [tuple(x) for x in gen]
        except BaseException as e:  # noqa: BLE001
            R.violate("py.kmers.exception", "KmerGenerator raised %r" % (e,), case)
            continue
        if got != [tuple(x) for x in exp]:
            R.violate("py.kmers.vs_core", "binding yields %d tuples, core %d; first difference at %s" % (
                len(got), len(exp), next((i for i, (a, b) in enumerate(zip(got, exp)) if tuple(a) != tuple(b)), min(len(got), len(exp)))), case)
            continue
        ref = refmodel.kmer_pairs(data, k)
        if got != ref:
            R.violate("py.kmers.vs_reference", "binding and core agree but differ from the Python reference model", case)
            continue
        if R.evaluations % 4 == 0 and len(s) < 400:
            k2 = k + 1 if k < 31 else k - 1
            if not iterator_object_checks(R, lambda: pk.KmerGenerator(s, k), lambda: pk.KmerGenerator(s[::-1] + "ACGTTGCA", max(1, k2)), got, "py.kmers", case):
                continue
        if R.evaluations % 97 == 1:
            R.sample({"seq": short(s), "k": k, "tuples": len(got)})


AFFIXES = ["\n", "\r\n", "\r", " ", "\t", "\n\n", " \n", "\u00a0", "\u2028", "\x0b", "\x0c", ">", "\ufeff"]


def directed_affix(rng, max_len=60):
    """a valid nucleotide string with foreign whitespace-like characters only at its very end or start
    (a binding that trims its input - readlines() style - would accept what the core rejects)"""
    base = gen_nuc(rng, max_len) or "ACGTAC"
    a = rng.choice(AFFIXES)
    return "affix", (base + a) if rng.random() < 0.7 else (a + base)


def directed_special(rng, max_len=80):
    base = gen_nuc(rng, max_len) or "ACGTACGT"
    p = rng.randrange(len(base) + 1)
    return "special-casemap", base[:p] + rng.choice(CASEMAP + CONFUSABLE) + base[p:]


def child_min(pk, rng, n, R, ktmon, work):
    cases = []
    for i in range(n):
        cls, s = (gen_string(rng, 160) if i % 5 else directed_special(rng)) if i % 11 else directed_affix(rng)
        m = (i % 31) + 1
        w = m + rng.choice([0, 1, rng.randint(0, 20), rng.randint(0, 60)])
        cases.append({"op": "min", "seq": s, "w": w, "m": m, "_cls": cls})
    core = core_eval(ktmon, work, cases, "min")
    for c, exp in zip(cases, core):
        s, w, m = c["seq"], c["w"], c["m"]
        data = s.encode("utf-8")
        R.case(len(data) >= w, (s, w, m))
        R.cls(c["_cls"])
        case = {"seq": s, "w": w, "m": m}
        if isinstance(exp, dict):
            R.violate("py.core_failed", "core failed on this input: %s" % exp, case)
            continue
        try:
            gen = pk.MinimiserGenerator(seq=s, wsize=w, msize=m) if R.evaluations % 3 == 0 else pk.MinimiserGenerator(s, w, m)
            got = [tuple(x) for x in gen]
        except BaseException as e:  # noqa: BLE001
            R.violate("py.min.exception", "MinimiserGenerator raised %r" % (e,), case)
            continue
        if got != [tuple(x) for x in exp]:
            R.violate("py.min.vs_core", "binding yields %s, core %s" % (got[:4], exp[:4]), case)
            continue
        ref = refmodel.minimiser_runs(data, w, m)
        if got != ref:
            R.violate("py.min.vs_reference", "binding and core agree (%s) but the reference model gives %s" % (got[:4], ref[:4]), case)
            continue
        if R.evaluations % 4 == 0:
            w2 = w + 1
            if not iterator_object_checks(R, lambda: pk.MinimiserGenerator(s, w, m), lambda: pk.MinimiserGenerator(s[::-1] + "ACGTTGCAGGAT", w2, m), got, "py.min", case):
                continue
        if R.evaluations % 97 == 1:
            R.sample({"seq": short(s), "w": w, "m": m, "runs": len(got)})


def attribute_probe(pk, R):
    """Any data attribute the classes expose to Python and accept assignments to must leave the object
    consistent: afterwards it behaves like before or like a freshly built object with that parameter -
    and never takes the interpreter down (the unchecked tables are sized in the constructor)."""
    seq = "ACGTTGCAAGGCTTAACGTACGATCGATCGGGATATCCGTA" * 3
    specs = [
        ("OligoComputer", lambda v=2: pk.OligoComputer(v), lambda o: list(o.vectorise_one(seq, False))),
        ("CgrComputer", lambda v=4: pk.CgrComputer(v), lambda o: [tuple(p) for p in o.vectorise_one("ACGTAC")]),
        ("KmerGenerator", lambda v=3: pk.KmerGenerator(seq, v), lambda o: [tuple(x) for x in o]),
        ("MinimiserGenerator", lambda v=3: pk.MinimiserGenerator(seq, 9, v), lambda o: [tuple(x) for x in o]),
    ]
    for cname, make, run in specs:
        probe = make()
        for name in dir(probe):
            if name.startswith("_"):
                continue
            try:
                val = getattr(probe, name)
            except BaseException:  # noqa: BLE001
                continue
            if callable(val) or not isinstance(val, int) or isinstance(val, bool):
                continue
            for newv in (val + 4, 6, 1):
                o = make()
                try:
                    setattr(o, name, newv)
                except (AttributeError, TypeError):
                    break  # read-only: nothing to check
                R.case(True, ("attr", cname, name, newv))
                R.cls("writable-attribute-probed")
                case = {"class": cname, "attribute": name, "assigned": newv}
                try:
                    got = run(o)
                except BaseException as e:  # noqa: BLE001
                    got = ("exception", type(e).__name__)
                acceptable = [run(make())]
                try:
                    acceptable.append(run(make(newv)))
                except BaseException:  # noqa: BLE001
                    pass
                if got not in acceptable and not (isinstance(got, tuple) and got and got[0] == "exception"):
                    R.violate("py.attribute.inconsistent", "%s.%s = %r leaves the object computing something that matches neither the old nor a fresh object" % (cname, name, newv), case)


def child_oligo(pk, rng, n, R, ktmon, work):
    attribute_probe(pk, R)
    cases = []
    for i in range(n):
        cls, s = (gen_string(rng, 300) if i % 6 else directed_special(rng, 200)) if i % 11 else directed_affix(rng, 200)
        k = (i % 8) + 1 if i % 5 == 0 else (i % 6) + 1
        norm = rng.random() < 0.5
        cases.append({"op": "oligo", "seq": s, "k": k, "norm": norm, "_cls": cls})
    core = core_eval(ktmon, work, cases, "oligo")
    comps = {}
    for c, exp in zip(cases, core):
        s, k, norm = c["seq"], c["k"], c["norm"]
        data = s.encode("utf-8")
        R.case(len(data) >= k, (s, k, norm))
        R.cls("k=%d" % k)
        case = {"seq": s, "k": k, "norm": norm}
        if isinstance(exp, dict):
            R.violate("py.core_failed", "core failed on this input: %s" % exp, case)
            continue
        try:
            if k not in comps:
                comps[k] = pk.OligoComputer(ksize=k) if k % 2 else pk.OligoComputer(k)
            got = comps[k].vectorise_one(seq=s, norm=norm) if R.evaluations % 3 == 0 else comps[k].vectorise_one(s, norm)
            got_default = comps[k].vectorise_one(s) if norm else None
        except BaseException as e:  # noqa: BLE001
            R.violate("py.oligo.exception", "OligoComputer raised %r" % (e,), case)
            continue
        if list(got) != [float(x) for x in exp]:
            R.violate("py.oligo.vs_core", "vectorise_one differs from the core vector (len %d vs %d)" % (len(got), len(exp)), case)
            continue
        if got_default is not None and list(got_default) != list(got):
            R.violate("py.oligo.default_norm", "vectorise_one(seq) is documented to normalise but differs from vectorise_one(seq, True)", case)
            continue
        if k <= 5:
            counts, total = refmodel.oligo_counts(data, k)
            ok = True
            for v, cnt in zip(got, counts):
                e = (cnt / total if total else 0.0) if norm else float(cnt)
                if abs(v - e) > 1e-12:
                    ok = False
            if not ok or len(got) != len(counts):
                R.violate("py.oligo.vs_reference", "binding and core agree but differ from the Python reference model", case)
                continue
        if R.evaluations % 97 == 1:
            R.sample({"seq": short(s), "k": k, "norm": norm, "columns": len(got)})


def child_header(pk, rng, n, R, ktmon, work):
    cases = [{"op": "header", "k": k} for k in range(1, 9)]
    core = core_eval(ktmon, work, cases, "header")
    for c, exp in zip(cases, core):
        k = c["k"]
        R.case(True, ("header", k))
        try:
            got = pk.OligoComputer(k).get_header()
        except BaseException as e:  # noqa: BLE001
            R.violate("py.header.exception", "get_header raised %r" % (e,), c)
            continue
        if list(got) != list(exp):
            R.violate("py.header.vs_core", "k=%d: Python header differs from the core header" % k, c)
            continue
        if k <= 7:
            ref = [refmodel.decode(x, k) for x in refmodel.canonical_list(k)]
            if list(got) != ref:
                R.violate("py.header.vs_reference", "k=%d: header is not the sorted canonical k-mer list" % k, c)
                continue
        # results belong to the caller: editing a returned list must not change what later calls return
        # (on the same computer, on a new computer for the same k, and for the vectors as well)
        try:
            oc = pk.OligoComputer(k)
            h1 = oc.get_header()
            want = list(h1)
            if isinstance(h1, list):
                h1.insert(0, "seq_id")
                h1.append("label")
                if h1:
                    h1[1] = "edited"
            h2 = list(oc.get_header())
            h3 = list(pk.OligoComputer(k).get_header())
            v1 = oc.vectorise_one("ACGTTGCAAGGCTTAACG", True)
            wantv = list(v1)
            if isinstance(v1, list) and v1:
                v1[0] = -1.0
                v1.append(7.0)
            v2 = list(oc.vectorise_one("ACGTTGCAAGGCTTAACG", True))
        except BaseException as e:  # noqa: BLE001
            R.violate("py.header.exception", "repeated get_header / vectorise_one raised %r" % (e,), c)
            continue
        R.case(True, ("header-alias", k))
        if h2 != want or h3 != want:
            R.violate("py.header.aliased", "k=%d: after the caller edited the list returned earlier, get_header() returns %d names starting %r (expected %d starting %r)"
                      % (k, len(h2), h2[:2], len(want), want[:2]), c)
            continue
        if v2 != wantv:
            R.violate("py.oligo.aliased", "k=%d: after the caller edited a returned vector, vectorise_one returns different values for the same string" % k, c)
            continue
        R.sample({"k": k, "columns": len(got), "first": list(got[:3])})


def child_cgr(pk, rng, n, R, ktmon, work):
    cases = []
    for i in range(n):
        S = rng.choice([1, 2, 3, 7, 16, 1000, 1 << 20, rng.randint(1, 1 << 20)])
        if i % 3 == 0:
            cls, s = gen_string(rng, 80)
        elif i % 7 == 1:
            base = gen_nuc(rng, 40) or "ACGT"
            p = rng.randrange(len(base) + 1)
            cls, s = "confusable", base[:p] + rng.choice(CONFUSABLE) + base[p:]
        elif i % 7 == 2:
            cls, s = directed_affix(rng)
        else:
            cls, s = "nuc", gen_nuc(rng)
        if i % 400 == 11:
            # two corners sharing a coordinate, > 1000 bases, power-of-two square: that coordinate is S * 2^-(i+2)
            # exactly, through the subnormal range
            letters = rng.choice(["ACac", "ATUatu"])
            cls, s, S = "two-corner>1000", "".join(rng.choice(letters) for _ in range(rng.randint(1000, 1100))), rng.choice([1, 16, 1 << 20])
        cases.append({"op": "cgr", "seq": s, "S": S, "_cls": cls})
    core = core_eval(ktmon, work, cases, "cgr")
    comps = {}
    for c, exp in zip(cases, core):
        s, S = c["seq"], c["S"]
        R.case(len(s) > 0, (s, S))
        case = {"seq": s, "S": S}
        if S not in comps:
            comps[S] = pk.CgrComputer(vecsize=S) if S % 2 else pk.CgrComputer(S)
        bad = refmodel.cgr_exact(s, S, 0) is None
        R.cls("bad-nucleotide" if bad else "nucleotide")
        try:
            got = comps[S].vectorise_one(seq=s) if R.evaluations % 3 == 0 else comps[S].vectorise_one(s)
            raised = None
        except ValueError as e:
            got, raised = None, e
        except BaseException as e:  # noqa: BLE001
            R.violate("py.cgr.wrong_exception", "vectorise_one raised %r (ValueError expected for bad input, nothing otherwise)" % (e,), case)
            continue
        if bad:
            if raised is None:
                R.violate("py.cgr.accepted_bad_nucleotide", "string with a non-nucleotide character yielded %d points" % len(got), case)
            if not (isinstance(exp, dict) and "error" in exp):
                R.violate("py.cgr.core_accepts", "core accepted what the reference rejects: %s" % str(exp)[:100], case)
            continue
        if raised is not None:
            R.violate("py.cgr.rejected_valid", "nucleotide string rejected: %r" % (raised,), case)
            continue
        if isinstance(exp, dict):
            R.violate("py.core_failed", "core failed on this input: %s" % exp, case)
            continue
        if [tuple(p) for p in got] != [tuple(p) for p in exp]:
            R.violate("py.cgr.vs_core", "Python CGR differs from the core CGR", case)
            continue
        if c["_cls"] == "two-corner>1000":
            R.cls(c["_cls"])
            axis = 0 if "C" in s.upper() else 1
            bad_at = None
            for i2, p in enumerate(got):
                e = float(S)
                for _ in range(i2 + 2):
                    e *= 0.5
                if p[axis] != e:
                    bad_at = (i2, p[axis], e)
                    break
            if bad_at:
                R.violate("py.cgr.subnormal", "base %d: shared coordinate %r, the midpoint rule gives exactly %r" % bad_at, {"seq": short(s, 60), "S": S, "len": len(s)})
                continue
        ex = refmodel.cgr_exact(s, S, 45)
        ok = len(got) == len(s)
        for (gx, gy), (fx, fy) in zip(got, ex):
            if abs(gx - float(fx)) > S * 1e-12 or abs(gy - float(fy)) > S * 1e-12:
                ok = False
        if not ok:
            R.violate("py.cgr.vs_reference", "binding and core agree but differ from the exact midpoint rule", case)
            continue
        if R.evaluations % 97 == 1:
            R.sample({"seq": short(s), "S": S, "points": len(got)})


def child_batch(pk, rng, n, R, ktmon, work, sizes=None):
    threads = os.environ.get("RAYON_NUM_THREADS", "default")
    R.extra["rayon_num_threads"] = threads
    for size in (sizes if sizes is not None else [0, 1, 2, 7, 1000, 5000] if n >= 6 else [0, 1, 2, 7, 1000]):
        k = rng.randint(1, 5)
        norm = rng.random() < 0.5
        seqs = [gen_string(rng, 60)[1] for _ in range(size)]
        R.case(size >= 2, ("oligo-batch", size, threads, k, norm, len("".join(seqs))))
        R.cls("oligo batch size %d" % size)
        case = {"what": "OligoComputer.vectorise_batch", "k": k, "norm": norm, "size": size, "threads": threads, "first": [short(s, 40) for s in seqs[:3]]}
        try:
            oc = pk.OligoComputer(k)
            got = oc.vectorise_batch(seqs=seqs, norm=norm) if size % 2 else oc.vectorise_batch(seqs, norm)
            if norm and size:
                # norm defaults to True
                if [list(v) for v in oc.vectorise_batch(seqs)] != [list(v) for v in got]:
                    R.violate("py.batch.default_norm", "vectorise_batch(seqs) differs from vectorise_batch(seqs, True)", case)
                    continue
            exp = [oc.vectorise_one(s, norm) for s in seqs]
        except BaseException as e:  # noqa: BLE001
            R.violate("py.batch.exception", "vectorise_batch raised %r" % (e,), case)
            continue
        if [list(v) for v in got] != [list(v) for v in exp]:
            idx = next((i for i, (a, b) in enumerate(zip(got, exp)) if list(a) != list(b)), min(len(got), len(exp)))
            R.violate("py.batch.oligo_order", "vectorise_batch result %d differs from vectorise_one of argument %d (len %d vs %d)" % (idx, idx, len(got), len(exp)), case)
            continue
        # CGR batch: nucleotide strings of different lengths so that a permutation is visible
        S = rng.choice([1, 16, 1000])
        nseqs = [gen_nuc(rng, 40) for _ in range(size)]
        R.case(size >= 2, ("cgr-batch", size, threads, S, len("".join(nseqs))))
        R.cls("cgr batch size %d" % size)
        case = {"what": "CgrComputer.vectorise_batch", "S": S, "size": size, "threads": threads, "first": nseqs[:3]}
        try:
            cc = pk.CgrComputer(S)
            got = cc.vectorise_batch(seqs=nseqs) if size % 2 else cc.vectorise_batch(nseqs)
            exp = [cc.vectorise_one(s) for s in nseqs]
        except BaseException as e:  # noqa: BLE001
            R.violate("py.batch.exception", "CGR vectorise_batch raised %r" % (e,), case)
            continue
        if [[tuple(p) for p in v] for v in got] != [[tuple(p) for p in v] for v in exp]:
            R.violate("py.batch.cgr_order", "CGR vectorise_batch is not the list of per-sequence results in argument order", case)
            continue
        if size >= 2:
            # one bad sequence anywhere => ValueError, never a crash and never a partial list
            for bad_entry in ["ACGTNACGT", directed_affix(rng)[1], "ACGT" + rng.choice(CONFUSABLE), "\n"]:
                bad = list(nseqs)
                bad[rng.randrange(size)] = bad_entry
                try:
                    cc.vectorise_batch(bad)
                    R.violate("py.batch.cgr_accepts_bad", "CGR vectorise_batch accepted a batch containing the non-nucleotide entry %r" % bad_entry, case)
                    break
                except ValueError:
                    pass
                except BaseException as e:  # noqa: BLE001
                    R.violate("py.batch.cgr_wrong_exception", "CGR vectorise_batch raised %r instead of ValueError" % (e,), case)
                    break
        R.sample({"size": size, "threads": threads, "k": k, "S": S})
    if sizes is None:  # (not in the memcheck run: several hundred large batch calls)
        concurrent_callers(pk, rng, R, threads)


def concurrent_callers(pk, rng, R, threads):
    """Several *Python* threads call the batch methods of the same computer objects at the same time, good batches and
    batches that must raise ValueError mixed.  Every call must still return exactly the per-sequence results of its own
    arguments (expected values are computed beforehand, one call at a time).  If the binding holds the interpreter lock
    for the whole call the threads simply take turns; if it releases the lock the calls really overlap."""
    import threading
    k = rng.randint(2, 4)
    S = rng.choice([16, 1000])
    oc, cc = pk.OligoComputer(k), pk.CgrComputer(S)
    jobs = []  # (what, args, expected or ValueError)
    for j in range(6):
        size = rng.choice([64, 200, 400])
        nseqs = ["".join(rng.choices("ACGTacgtUu", k=rng.randint(50, 700))) for _ in range(size)]
        jobs.append(("cgr", nseqs, [[tuple(p) for p in cc.vectorise_one(x)] for x in nseqs]))
        bad = list(nseqs[: rng.randint(1, 8)])
        bad[rng.randrange(len(bad))] = rng.choice(["ACGTNACGT", "N", "ACG T", "AC\u00c5GT"])
        jobs.append(("cgr", bad, ValueError))
        oseqs = [gen_string(rng, 300)[1] for _ in range(size)]
        norm = rng.random() < 0.5
        jobs.append(("oligo", (oseqs, norm), [list(oc.vectorise_one(x, norm)) for x in oseqs]))
    nthreads, rounds = 6, 3
    R.case(True, ("concurrent-callers", threads, k, S, len(jobs)))
    R.cls("batch calls from %d Python threads on shared computers" % nthreads)
    problems, calls, refused = [], [0], [0]
    lock = threading.Lock()
    barrier = threading.Barrier(nthreads)

    def worker(t):
        order = list(range(len(jobs)))
        random.Random(1000 + t).shuffle(order)
        barrier.wait()
        for r in range(rounds):
            for ji in order:
                what, args, exp = jobs[ji]
                try:
                    if what == "cgr":
                        got = [[tuple(p) for p in v] for v in cc.vectorise_batch(args)]
                    else:
                        got = [list(v) for v in oc.vectorise_batch(args[0], args[1])]
                except ValueError:
                    got = ValueError
                except BaseException as e:  # noqa: BLE001
                    got = repr(e)
                with lock:
                    calls[0] += 1
                    if isinstance(got, str):
                        # the binding refused the overlapping call on a shared object with some other exception (what PyO3
                        # does by itself for `&mut self` methods once the lock is released): allowed, counted, not judged
                        refused[0] += 1
                        continue
                    if got != exp and len(problems) < 5:
                        if exp is ValueError:
                            msg = "a batch with a non-nucleotide entry did not raise ValueError (got %s)" % (short(repr(got), 60),)
                        elif got is ValueError:
                            msg = "a valid %s batch of %d raised ValueError" % (what, len(exp))
                        else:
                            bad_i = next((i for i, (a, b) in enumerate(zip(got, exp)) if a != b), min(len(got), len(exp)))
                            msg = "%s batch of %d: result %d differs from the per-sequence result of argument %d (%d results returned)" % (what, len(exp), bad_i, bad_i, len(got))
                        problems.append((t, r, ji, msg))

    ts = [threading.Thread(target=worker, args=(t,)) for t in range(nthreads)]
    for t in ts:
        t.start()
    for t in ts:
        t.join()
    R.extra["concurrent_python_batch_calls"] = R.extra.get("concurrent_python_batch_calls", 0) + calls[0]
    R.extra["concurrent_python_batch_calls_refused_by_the_binding"] = R.extra.get("concurrent_python_batch_calls_refused_by_the_binding", 0) + refused[0]
    for t, r, ji, msg in problems[:2]:
        R.violate("py.batch.concurrent_callers", "with %d Python threads calling the same computers (thread %d, round %d, job %d): %s" % (nthreads, t, r, ji, msg),
                  {"what": "concurrent batch calls", "k": k, "S": S, "python_threads": nthreads, "threads": threads, "job": ji})


def churn(rng, approx_len):
    """release and re-allocate many objects of about the same size as the source string"""
    junk = []
    for i in range(400):
        n = max(1, approx_len + rng.randint(-8, 8))
        junk.append(("T" * n).encode())
        junk.append("G" * n)
        if i % 3 == 0:
            junk.pop(rng.randrange(len(junk)))
    del junk
    gc.collect()


def child_lifetime(pk, rng, n, R, ktmon, work):
    for i in range(n):
        cls, s0 = gen_string(rng, 400)
        if len(s0) < 8:
            s0 = s0 + "".join(rng.choice(NUC) for _ in range(40))
        k = rng.randint(1, 12)
        m = rng.randint(1, 10)
        w = m + rng.randint(0, 15)
        # expected results from iterators consumed immediately
        exp_k = list(pk.KmerGenerator(s0, k))
        exp_m = list(pk.MinimiserGenerator(s0, w, m))
        nbytes = len(s0.encode("utf-8"))
        R.case(True, (s0, k, w, m))
        R.cls(cls)
        case = {"seq": s0, "k": k, "w": w, "m": m}
        # build from a fresh, otherwise unreferenced string object
        tmp = "".join(list(s0))
        it_k = pk.KmerGenerator(tmp, k)
        it_m = pk.MinimiserGenerator(tmp, w, m)
        first = []
        for _ in range(min(3, len(exp_k))):
            first.append(next(it_k))
        del tmp
        gc.collect()
        churn(rng, nbytes)
        rest = list(it_k)
        got_m = list(it_m)
        # the iterator obtained from a *temporary* generator object (what a for loop over KmerGenerator(...) holds):
        # the generator itself is released right after iter(), only the iterator survives
        it_k2 = iter(pk.KmerGenerator("".join(list(s0)), k))
        it_m2 = iter(pk.MinimiserGenerator("".join(list(s0)), w, m))
        gc.collect()
        churn(rng, nbytes)
        got_k2 = list(it_k2)
        got_m2 = list(it_m2)
        acc = []
        for km in pk.KmerGenerator("".join(list(s0)), k):
            if len(acc) == 1:
                churn(rng, nbytes)
            acc.append(km)
        if got_k2 != exp_k or acc != exp_k:
            R.violate("py.lifetime.kmers.temporary", "iterating a temporary KmerGenerator (iter() / for loop) yields different tuples once the generator object is released", case)
            continue
        if got_m2 != exp_m:
            R.violate("py.lifetime.min.temporary", "iterating a temporary MinimiserGenerator yields different runs once the generator object is released", case)
            continue
        if first + rest != exp_k:
            R.violate("py.lifetime.kmers", "k-mer iterator output changed after the source string was released and the heap churned", case)
            continue
        if got_m != exp_m:
            R.violate("py.lifetime.min", "minimiser iterator output changed after the source string was released and the heap churned", case)
            continue
        # exhausted iterators stay exhausted
        if list(it_k) or list(it_m):
            R.violate("py.lifetime.not_fused", "an exhausted iterator yielded items again", case)
            continue
        if i % 50 == 0:
            R.sample({"seq": short(s0, 60), "k": k, "w": w, "m": m, "kmers": len(exp_k), "runs": len(exp_m)})


def child_vg(pk, rng, n, R, ktmon, work):
    """The interpreter of this child runs under valgrind memcheck (see main): the functional monitors run as usual,
    the parent additionally reads the memcheck log and reports every invalid access with a frame inside the
    extension module.  Workload: iterators outliving their source string, every per-sequence entry point, small
    batches on the rayon pool."""
    child_lifetime(pk, rng, n, R, ktmon, work)
    child_oligo(pk, rng, max(4, n // 3), R, ktmon, work)
    child_cgr(pk, rng, max(4, n // 3), R, ktmon, work)
    child_batch(pk, rng, 0, R, ktmon, work, sizes=[0, 1, 7, 40])


def child_large(pk, rng, n, R, ktmon, work):
    """strings with more than 2^24 windows (accumulator width); expected values are analytic"""
    for i in range(n):
        N = (1 << 24) + rng.randint(1000, 300000)
        M = rng.randint(1, 200000)
        s = "A" * N + "C" * M
        for k in (1, 2):
            oc = pk.OligoComputer(k)
            header = list(oc.get_header())
            if k == 1:
                exp = {"A": N, "C": M}
            else:
                exp = {"AA": N - 1, "AC": 1, "CC": M - 1}
            total = sum(exp.values())
            R.case(True, ("large", N, M, k))
            case = {"seq": "A*%d + C*%d" % (N, M), "k": k, "windows": total}
            try:
                raw = oc.vectorise_one(s, False)
                nrm = oc.vectorise_one(s, True)
                bat = oc.vectorise_batch([s, "ACGT"], True)
            except BaseException as e:  # noqa: BLE001
                R.violate("py.large.exception", "raised %r" % (e,), case)
                continue
            ok = True
            for j, name in enumerate(header):
                e = exp.get(name, 0)
                if raw[j] != float(e) or abs(nrm[j] - e / total) > 1e-12 or abs(bat[0][j] - e / total) > 1e-12:
                    R.violate("py.large.value", "column %s: raw %r normalised %r batch %r, expected %d and %r" % (name, raw[j], nrm[j], bat[0][j], e, e / total), case)
                    ok = False
                    break
            if ok:
                R.sample(case)
        # an ambiguous character within k bytes of the 2^24 offset (block seams of any chunked counting)
        for k in (2, 4):
            off = (1 << 24) - rng.randint(0, k + 1)
            N2 = (1 << 24) + rng.randint(5000, 90000)
            s2 = "A" * off + "N" + "A" * (N2 - off - 1)
            oc = pk.OligoComputer(k)
            header = list(oc.get_header())
            exp_a = max(0, off - k + 1) + max(0, (N2 - off - 1) - k + 1)
            R.case(True, ("large-seam", off, N2, k))
            case = {"seq": "A*%d + N + A*%d" % (off, N2 - off - 1), "k": k, "windows": exp_a}
            try:
                raw = oc.vectorise_one(s2, False)
            except BaseException as e:  # noqa: BLE001
                R.violate("py.large.exception", "raised %r" % (e,), case)
                continue
            ja = header.index("A" * k)
            if raw[ja] != float(exp_a) or sum(raw) != float(exp_a):
                R.violate("py.large.seam", "poly-A column %r (sum %r), expected %d" % (raw[ja], sum(raw), exp_a), case)
        # iterators on a long string: count items only (20M tuples would be too slow to list), sample the tail
        it = pk.KmerGenerator("A" * 70000 + "N" + "C" * 70000, 31)
        cnt = sum(1 for _ in it)
        R.case(True, ("large-iter", i))
        if cnt != 2 * (70000 - 30):
            R.violate("py.large.kmers", "%d k-mers from A*70000 N C*70000 at k=31, expected %d" % (cnt, 2 * (70000 - 30)), {"k": 31})
        # minimisers of a string longer than 1 MiB made of several N-separated stretches (any "long input" path that
        # splits the work): the runs of the whole string must be, left to right, the runs of each stretch — each stretch
        # is itself shorter than 1 MiB and goes through the ordinary path — shifted by the stretch's offset
        segs = ["".join(rng.choice(NUC) for _ in range(rng.randint(150_000, 420_000))) for _ in range(rng.randint(3, 6))]
        while sum(len(x) for x in segs) < (1 << 20) + 5000:
            segs.append("".join(rng.choice(NUC) for _ in range(300_000)))
        m = rng.choice([5, 10, 15])
        w = m + rng.choice([0, 5, 16])
        seps = [rng.choice(["N", "NN", "n", "-"]) for _ in segs]
        whole = "".join(a + b for a, b in zip(segs, seps))
        R.case(True, ("large-min", len(whole), w, m))
        case = {"seq": "%d random stretches of %s bases separated by ambiguous characters (total %d)" % (len(segs), [len(x) for x in segs], len(whole)), "w": w, "m": m}
        try:
            got = [tuple(x) for x in pk.MinimiserGenerator(whole, w, m)]
            exp = []
            off = 0
            for a, b in zip(segs, seps):
                exp.extend((v, st + off, en + off) for (v, st, en) in pk.MinimiserGenerator(a, w, m))
                off += len(a) + len(b)
        except BaseException as e:  # noqa: BLE001
            R.violate("py.large.exception", "MinimiserGenerator raised %r" % (e,), case)
            continue
        if got != exp:
            same_set = sorted(got) == sorted(exp)
            R.violate("py.large.min" + (".order" if same_set else ""), "%d runs from the whole string, %d from its stretches; same multiset: %s; first difference at %s" % (
                len(got), len(exp), same_set, next((j for j, (x, y) in enumerate(zip(got, exp)) if x != y), min(len(got), len(exp)))), case)


def child_acgt(pk, rng, n, R, ktmon, work):
    for i in range(n):
        k = (i % 31) + 1
        x = rng.choice([0, 4 ** k - 1, 1, rng.randrange(4 ** k)])
        R.case(True, (x, k))
        case = {"code": x, "k": k}
        try:
            t = pk.KmerGenerator("ACGT", k).to_acgt(x)
            t2 = pk.MinimiserGenerator("ACGT" * 10, k + 1, k).to_acgt(x)
        except BaseException as e:  # noqa: BLE001
            R.violate("py.acgt.exception", "to_acgt raised %r" % (e,), case)
            continue
        if t != refmodel.decode(x, k) or t2 != t:
            R.violate("py.acgt.value", "to_acgt(%d) = %r / %r, expected %r" % (x, t, t2, refmodel.decode(x, k)), case)
            continue
        if i % 40 == 0:
            R.sample({"code": x, "k": k, "text": t})


def child_models(pk, rng, n, R, ktmon, work):
    """cross-check of the two reference models (Rust refmodel via ref-eval, Python refmodel)"""
    cases = []
    for i in range(n):
        cls, s = gen_string(rng, 120)
        kind = i % 4
        if kind == 0:
            cases.append({"op": "kmers", "seq": s, "k": (i % 31) + 1})
        elif kind == 1:
            m = (i % 12) + 1
            cases.append({"op": "min", "seq": s, "w": m + rng.randint(0, 20), "m": m})
        elif kind == 2:
            cases.append({"op": "oligo", "seq": s, "k": (i % 5) + 1})
        else:
            cases.append({"op": "cgr", "seq": gen_nuc(rng, 50), "S": rng.choice([1, 3, 16, 1000])})
    ref = core_eval(ktmon, work, cases, "models", reference=True)
    for c, r in zip(cases, ref):
        data = c["seq"].encode("utf-8")
        R.case(True, json.dumps(c, sort_keys=True))
        R.cls(c["op"])
        if c["op"] == "kmers":
            ok = [tuple(x) for x in r] == refmodel.kmer_pairs(data, c["k"])
        elif c["op"] == "min":
            ok = [tuple(x) for x in r] == refmodel.minimiser_runs(data, c["w"], c["m"])
        elif c["op"] == "oligo":
            counts, total = refmodel.oligo_counts(data, c["k"])
            ok = r["counts"] == counts and r["total"] == total
        else:
            ex = refmodel.cgr_exact(c["seq"], c["S"], 60)
            def frac(t):
                a, b = t.split("/2^")
                from fractions import Fraction
                return Fraction(int(a), 2 ** int(b))
            ok = ex is not None and len(r) == len(ex) and all(frac(a[0]) == b[0] and frac(a[1]) == b[1] for a, b in zip(r, ex))
        if not ok:
            R.violate("HARNESS.models_disagree", "Rust and Python reference models disagree", c)
        elif R.evaluations % 101 == 1:
            R.sample({k: (short(v) if isinstance(v, str) else v) for k, v in c.items()})


CHILDREN = {"py.kmers": child_kmers, "py.min": child_min, "py.oligo": child_oligo, "py.header": child_header,
            "py.cgr": child_cgr, "py.batch": child_batch, "py.lifetime": child_lifetime, "py.acgt": child_acgt, "py.large": child_large,
            "py.models": child_models, "py.vg": child_vg}

# (groups, cases per group) per tier
SIZES = {
    "py.kmers": {"quick": (4, 2500), "thorough": (16, 8000)},
    "py.min": {"quick": (4, 2000), "thorough": (16, 6000)},
    "py.oligo": {"quick": (4, 1500), "thorough": (16, 5000)},
    "py.header": {"quick": (1, 8), "thorough": (1, 8)},
    "py.cgr": {"quick": (4, 2000), "thorough": (16, 6000)},
    "py.batch": {"quick": (4, 5), "thorough": (9, 6)},
    "py.lifetime": {"quick": (4, 200), "thorough": (8, 1200)},
    "py.acgt": {"quick": (1, 400), "thorough": (2, 5000)},
    "py.large": {"quick": (1, 1), "thorough": (2, 2)},
    "py.models": {"quick": (2, 600), "thorough": (8, 4000)},
    "py.vg": {"quick": (2, 12), "thorough": (12, 120)},
}


VG_KINDS = ("Invalid read", "Invalid write", "Invalid free", "Mismatched free", "Source and destination overlap",
            "Jump to the invalid address", "Process terminating")


def parse_memcheck(path, module="pykmertools"):
    """memcheck log -> (reports attributable to the extension module, number of other reports).
    A report counts against the module when one of its stack frames lies in the module's shared object.  Only
    addressability errors are verdicts; 'uninitialised value' reports are counted separately (CPython itself
    produces them even with PYTHONMALLOC=malloc, and memcheck can mis-flag optimised code), never as violations."""
    try:
        text = open(path, errors="replace").read()
    except OSError:
        return None
    blocks, cur = [], []
    for line in text.splitlines():
        body = re.sub(r"^==\d+== ?", "", line)
        if body.strip() == "":
            if cur:
                blocks.append(cur)
            cur = []
        else:
            cur.append(body)
    if cur:
        blocks.append(cur)
    mine, uninit_mine, other = [], 0, 0
    # a report = a block starting with an error kind, possibly followed by an "Address ... is ... inside a block" block
    i = 0
    while i < len(blocks):
        b = blocks[i]
        head = b[0]
        is_err = any(head.startswith(k) for k in VG_KINDS) or "uninitialised" in head
        if not is_err:
            i += 1
            continue
        frames = [l for l in b[1:] if l.lstrip().startswith(("at 0x", "by 0x"))]
        extra = [l for l in b[1:] if l.lstrip().startswith("Address 0x")]
        if not extra and i + 1 < len(blocks) and blocks[i + 1][0].lstrip().startswith("Address 0x"):
            extra = blocks[i + 1]
            i += 1
        i += 1
        if extra:
            k = b.index(extra[0]) if extra[0] in b else len(b)
            frames = [l for l in b[1:k] if l.lstrip().startswith(("at 0x", "by 0x"))]
        # attribution: the access stack, or (for a freed / foreign block) the stack that allocated or released it
        in_module = [f for f in frames if module in f] or [l for l in b[1:] + (extra if extra and extra[0] not in b else []) if l.lstrip().startswith(("at 0x", "by 0x")) and module in l]
        if head.startswith("Process terminating"):
            continue
        if not in_module:
            other += 1
            continue
        if "uninitialised" in head:
            uninit_mine += 1
            continue
        fn = re.sub(r"^\s*(at|by) 0x[0-9A-Fa-f]+: ", "", in_module[0])
        fn = re.sub(r" \(in .*\)$", "", fn)
        fn = re.sub(r"::h[0-9a-f]{16}$", "", fn)
        mine.append({"kind": " ".join(head.split()[:2]), "head": head, "frame": fn, "address": extra[0].strip() if extra else "",
                     "stack": [f.strip() for f in frames[:8]]})
    return mine, uninit_mine, other



def run_child(args):
    stage, group, seed, tier, moddir, ktmon, out, work = args
    sys.path.insert(0, moddir)
    import pykmertools as pk
    rng = random.Random("%s/%s/%s" % (seed, stage, group))
    R = Result(stage)
    n = SIZES[stage][tier][1]
    CHILDREN[stage](pk, rng, n, R, ktmon, work)
    with open(out, "w") as f:
        json.dump(R.to_json(), f)
    return 0


def main():
    a = sys.argv[1:]
    if a and a[0] == "--child":
        return run_child((a[1], int(a[2]), int(a[3]), a[4], a[5], a[6], a[7], a[8]))
    stage = a[0]
    opts = {"--seed": "1", "--tier": "quick", "--moddir": "", "--ktmon": "", "--out": "", "--replay-dir": "/verif/replays", "--work": "/dev/shm"}
    i = 1
    while i < len(a):
        if a[i] == "--opt":
            i += 2
            continue
        opts[a[i]] = a[i + 1]
        i += 2
    seed, tier = int(opts["--seed"]), opts["--tier"]
    if stage not in CHILDREN:
        print("unknown stage", stage)
        return 2
    groups = SIZES[stage][tier][0]
    merged = Result(stage)
    t0 = time.time()
    procs = []
    under_vg = stage == "py.vg"
    vg_logs = {}
    if under_vg and not shutil.which("valgrind"):
        merged.inconclusive += 1
        merged.inconclusive_notes.append("valgrind not installed")
        groups = 0
    for g in range(groups):
        out = os.path.join(opts["--work"], "pychild-%s-%d-%d.json" % (stage, g, os.getpid()))
        env = dict(os.environ)
        env["RAYON_NUM_THREADS"] = ["2", "1", "16", "5"][g % 4]
        env["PYTHONHASHSEED"] = "0"
        prefix = []
        if under_vg:
            # the interpreter proper (valgrind does not follow the exec of a wrapper script); malloc-backed objects so
            # that memcheck sees every Python-level release
            env["PYTHONMALLOC"] = "malloc"
            env["RAYON_NUM_THREADS"] = ["2", "1", "3", "5"][g % 4]
            vg_logs[g] = os.path.join(opts["--work"], "memcheck-%d-%d.log" % (g, os.getpid()))
            prefix = ["valgrind", "--tool=memcheck", "--error-exitcode=0", "--leak-check=no", "--num-callers=30", "--error-limit=no",
                      "--log-file=" + vg_logs[g]]
        p = subprocess.Popen(prefix + [sys.executable, os.path.abspath(__file__), "--child", stage, str(g), str(seed), tier, opts["--moddir"], opts["--ktmon"], out, opts["--work"]],
                             env=env, stdout=subprocess.PIPE, stderr=subprocess.PIPE)
        procs.append((g, p, out, env["RAYON_NUM_THREADS"]))
        # at most 8 children at a time
        while sum(1 for _, q, _, _ in procs if q.poll() is None) >= 8:
            time.sleep(0.05)
    distinct = set()
    for g, p, out, threads in procs:
        try:
            so, se = p.communicate(timeout=1800)
        except subprocess.TimeoutExpired:
            p.kill()
            merged.inconclusive += 1
            merged.inconclusive_notes.append("child %d of %s: watchdog" % (g, stage))
            continue
        rc = p.returncode
        if under_vg:
            parsed = parse_memcheck(vg_logs[g])
            if parsed is None:
                merged.inconclusive += 1
                merged.inconclusive_notes.append("child %d: no memcheck log" % g)
            else:
                mine, uninit_mine, other = parsed
                merged.extra["memcheck_logs_read"] = merged.extra.get("memcheck_logs_read", 0) + 1
                merged.extra["memcheck_reports_outside_module_ignored"] = merged.extra.get("memcheck_reports_outside_module_ignored", 0) + other
                merged.extra["memcheck_uninitialised_in_module_not_judged"] = merged.extra.get("memcheck_uninitialised_in_module_not_judged", 0) + uninit_mine
                for rep in mine:
                    merged.violate("py.memcheck:%s:%s" % (rep["kind"], rep["frame"][:80]),
                                   "valgrind memcheck: %s in the extension module (%s) %s" % (rep["head"], rep["frame"], rep["address"]),
                                   {"stage": stage, "group": g, "seed": seed, "tier": tier, "rayon_threads": threads, "stack": rep["stack"]})
            try:
                os.remove(vg_logs[g])
            except OSError:
                pass
        if rc != 0 or not os.path.exists(out):
            tail = se.decode("utf-8", "replace")[-800:]
            if rc < 0 or "panicked" in tail or "Fatal Python error" in tail:
                merged.evaluations += 1
                merged.violate("py.interpreter_died:%s" % stage, "child interpreter for group %d ended with %s: %s" % (g, ("signal %d" % -rc) if rc < 0 else ("exit %d" % rc), tail[-300:]),
                               {"stage": stage, "group": g, "seed": seed, "tier": tier, "rayon_threads": threads})
            elif "No space left on device" in tail or "Errno 28" in tail:
                merged.inconclusive += 1
                merged.inconclusive_notes.append("environment: scratch space full in child %d of %s" % (g, stage))
            else:
                print("child failed: rc=%s\n%s" % (rc, tail))
                return 2
            continue
        r = json.load(open(out))
        os.remove(out)
        merged.evaluations += r["evaluations"]
        merged.nontrivial += r["nontrivial"]
        distinct.update(r["distinct_keys"])
        merged.violations_total += r["violations_total"]
        for v in r["violations"]:
            if merged.viol_by_sig.get(v["sig"], 0) < 3:
                merged.violations.append(v)
            merged.viol_by_sig[v["sig"]] = merged.viol_by_sig.get(v["sig"], 0) + 1
        for s, nn in r["violations_by_sig"].items():
            merged.viol_by_sig[s] = max(merged.viol_by_sig.get(s, 0), nn)
        merged.inconclusive += r["inconclusive"]
        merged.inconclusive_notes += r["inconclusive_notes"]
        for s in r["samples"]:
            merged.sample(s)
        for k, nn in r["classes"].items():
            merged.cls(k, nn)
        for k, nn in r.get("extra", {}).items():
            if k.startswith("concurrent_python_batch_calls"):
                merged.extra[k] = merged.extra.get(k, 0) + nn
        merged.extra.setdefault("rayon_num_threads_used", [])
        if threads not in merged.extra["rayon_num_threads_used"]:
            merged.extra["rayon_num_threads_used"].append(threads)
    merged.distinct = distinct
    j = merged.to_json()
    j.pop("distinct_keys")
    j["extra"]["child_interpreters"] = groups
    j["wall_s"] = round(time.time() - t0, 2)
    # replay files
    os.makedirs(opts["--replay-dir"], exist_ok=True)
    vs = []
    for n, v in enumerate(j["violations"]):
        path = os.path.join(opts["--replay-dir"], "%s-PY-seed%d-%d-%d.json" % (stage.replace(".", "_"), seed, os.getpid(), n))
        json.dump({"stage": stage, "flavour": "PY", "seed": seed, "sig": v["sig"], "msg": v["msg"], "case": v["case"]}, open(path, "w"))
        vs.append({"sig": v["sig"], "msg": v["msg"], "replay": path})
    j["violations"] = vs
    with open(opts["--out"], "w") as f:
        json.dump(j, f)
    return 0


if __name__ == "__main__":
    sys.exit(main())
