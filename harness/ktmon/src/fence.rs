//! Guard-page ("electric fence") placement of input slices.
//!
//! The sequence handed to the code under test is copied into a private anonymous mapping so that it ends exactly
//! at an inaccessible page (`Side::End`) or begins exactly after one (`Side::Start`).  Any read or write that
//! strays by even one byte beyond the slice on that side faults immediately, at native speed and whatever the
//! values are — the observation an output-level oracle cannot make (an over-read byte is normally discarded).
//!
//! A SIGSEGV/SIGBUS handler writes the thread's *current case* (pre-rendered JSON, set with `set_current`) to
//! `<work>/current-<pid>.json` — the file the driver turns into a replay — and then lets the default action
//! kill the process, so the driver reports `crash:SIGSEGV` with the exact input that faulted.

use std::cell::Cell;
use std::ffi::CString;
use std::sync::atomic::{AtomicPtr, Ordering};

#[derive(Clone, Copy, Debug, PartialEq)]
pub enum Side {
    End,
    Start,
}

pub fn page() -> usize {
    let p = unsafe { libc::sysconf(libc::_SC_PAGESIZE) };
    if p <= 0 {
        4096
    } else {
        p as usize
    }
}

/// One reusable mapping: [guard page][body: cap bytes, page multiple][guard page]
pub struct Arena {
    base: *mut u8,
    body: usize,
    page: usize,
}

unsafe impl Send for Arena {}

impl Arena {
    pub fn new(cap: usize) -> Arena {
        let pg = page();
        let body = ((cap.max(1) + pg - 1) / pg) * pg;
        let total = body + 2 * pg;
        let base = unsafe {
            libc::mmap(std::ptr::null_mut(), total, libc::PROT_READ | libc::PROT_WRITE, libc::MAP_PRIVATE | libc::MAP_ANONYMOUS, -1, 0)
        };
        assert!(base != libc::MAP_FAILED, "mmap for the fence arena failed");
        let base = base as *mut u8;
        unsafe {
            assert_eq!(libc::mprotect(base as *mut libc::c_void, pg, libc::PROT_NONE), 0);
            assert_eq!(libc::mprotect(base.add(pg + body) as *mut libc::c_void, pg, libc::PROT_NONE), 0);
            std::ptr::write_bytes(base.add(pg), b'A', body);
        }
        Arena { base, body, page: pg }
    }

    pub fn capacity(&self) -> usize {
        self.body
    }

    /// Copy `data` flush against the chosen guard page and return the fenced slice.
    pub fn place<'a>(&'a mut self, data: &[u8], side: Side) -> &'a [u8] {
        assert!(data.len() <= self.body);
        unsafe {
            let body = self.base.add(self.page);
            // slack bytes look like ordinary bases (filled once at creation, afterwards left-overs of earlier cases):
            // a stray read *inside* the body finds plausible sequence text, which the value comparison notices
            let dst = match side {
                Side::End => body.add(self.body - data.len()),
                Side::Start => body,
            };
            std::ptr::copy_nonoverlapping(data.as_ptr(), dst, data.len());
            std::slice::from_raw_parts(dst, data.len())
        }
    }
}

impl Drop for Arena {
    fn drop(&mut self) {
        unsafe {
            libc::munmap(self.base as *mut libc::c_void, self.body + 2 * self.page);
        }
    }
}

thread_local! {
    static CURRENT: Cell<(*const u8, usize)> = const { Cell::new((std::ptr::null(), 0)) };
}
static CRASH_PATH: AtomicPtr<libc::c_char> = AtomicPtr::new(std::ptr::null_mut());

/// The text must stay alive (and unmoved) until the next call on this thread.
pub fn set_current(text: &str) {
    CURRENT.with(|c| c.set((text.as_ptr(), text.len())));
}

pub fn clear_current() {
    CURRENT.with(|c| c.set((std::ptr::null(), 0)));
}

extern "C" fn on_fault(sig: libc::c_int, _info: *mut libc::siginfo_t, _ctx: *mut libc::c_void) {
    // async-signal-safe only: open / write / close / signal
    unsafe {
        let path = CRASH_PATH.load(Ordering::Relaxed);
        let (p, n) = CURRENT.with(|c| c.get());
        if !path.is_null() && !p.is_null() {
            let fd = libc::open(path, libc::O_CREAT | libc::O_WRONLY | libc::O_TRUNC, 0o644);
            if fd >= 0 {
                let mut off = 0usize;
                while off < n {
                    let w = libc::write(fd, p.add(off) as *const libc::c_void, n - off);
                    if w <= 0 {
                        break;
                    }
                    off += w as usize;
                }
                libc::close(fd);
            }
        }
        // default action on return: the faulting instruction re-executes and kills the process with `sig`
        libc::signal(sig, libc::SIG_DFL);
    }
}

/// Install the fault handler; `crash_file` is where the current case is written.
pub fn install(crash_file: &std::path::Path) {
    let c = CString::new(crash_file.to_string_lossy().as_bytes()).expect("path");
    CRASH_PATH.store(c.into_raw(), Ordering::Relaxed);
    unsafe {
        let mut sa: libc::sigaction = std::mem::zeroed();
        sa.sa_sigaction = on_fault as usize;
        sa.sa_flags = libc::SA_SIGINFO | libc::SA_ONSTACK;
        libc::sigemptyset(&mut sa.sa_mask);
        libc::sigaction(libc::SIGSEGV, &sa, std::ptr::null_mut());
        libc::sigaction(libc::SIGBUS, &sa, std::ptr::null_mut());
    }
}
