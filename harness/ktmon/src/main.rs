//! ktmon — runtime monitors for the kmertools properties (one sub-command per stage).
//! See /verif/DESIGN.md.  Exit status: 0 = stage ran (verdicts are in the result JSON),
//! 2 = harness error.  Violations are *data*; the driver (bin/check) decides exit codes.

mod common;
mod fence;
mod sched;
mod stages;
mod util;

use common::*;
use std::collections::BTreeMap;
use std::path::PathBuf;
use std::time::{Duration, Instant};

fn usage() -> ! {
    eprintln!("usage: ktmon <stage> [--seed N] [--tier quick|thorough] [--work DIR] [--replay-dir DIR] [--cli PATH] [--out FILE] [--threads N] [--scale F] [--flavour NAME] [--budget SECS] [--replay FILE] [--opt k=v]...");
    eprintln!("stages: {}", stages::names().join(" "));
    std::process::exit(2);
}

fn main() {
    let args: Vec<String> = std::env::args().collect();
    if args.len() < 2 {
        usage();
    }
    let stage = args[1].clone();
    let mut seed = 1u64;
    let mut tier = Tier::Quick;
    let mut work = PathBuf::from("/dev/shm/ktverif");
    let mut replay_dir = PathBuf::from("/verif/replays");
    let mut cli = None;
    let mut out = None;
    let mut threads = std::thread::available_parallelism().map(|n| n.get()).unwrap_or(4);
    let mut scale = 1.0f64;
    let mut flavour = "R".to_string();
    let mut budget = 3600u64;
    let mut replay = None;
    let mut extra = BTreeMap::new();
    let mut i = 2;
    while i < args.len() {
        let a = args[i].as_str();
        let mut val = || -> String {
            i += 1;
            if i >= args.len() {
                usage();
            }
            args[i].clone()
        };
        match a {
            "--seed" => seed = val().parse().unwrap_or_else(|_| usage()),
            "--tier" => {
                tier = match val().as_str() {
                    "quick" => Tier::Quick,
                    "thorough" => Tier::Thorough,
                    _ => usage(),
                }
            }
            "--work" => work = PathBuf::from(val()),
            "--replay-dir" => replay_dir = PathBuf::from(val()),
            "--cli" => cli = Some(PathBuf::from(val())),
            "--out" => out = Some(PathBuf::from(val())),
            "--threads" => threads = val().parse().unwrap_or_else(|_| usage()),
            "--scale" => scale = val().parse().unwrap_or_else(|_| usage()),
            "--flavour" => flavour = val(),
            "--budget" => budget = val().parse().unwrap_or_else(|_| usage()),
            "--replay" => replay = Some(PathBuf::from(val())),
            "--opt" => {
                let kv = val();
                match kv.split_once('=') {
                    Some((k, v)) => {
                        extra.insert(k.to_string(), v.to_string());
                    }
                    None => {
                        extra.insert(kv, "1".to_string());
                    }
                }
            }
            _ => usage(),
        }
        i += 1;
    }
    if let Err(e) = std::fs::create_dir_all(&work) {
        eprintln!("ERROR: cannot create work dir {}: {}", work.display(), e);
        std::process::exit(2);
    }
    let ctx = Ctx {
        stage: stage.clone(),
        seed,
        tier,
        work,
        replay_dir,
        cli,
        out,
        threads,
        scale,
        flavour,
        deadline: Instant::now() + Duration::from_secs(budget),
        replay,
        extra,
    };
    install_panic_hook();
    quiet_panics(true);
    let started = Instant::now();
    match stages::run(&ctx) {
        Some(stats) => {
            std::process::exit(finish(&ctx, stats, started));
        }
        None => {
            eprintln!("ERROR: unknown stage {}", stage);
            usage();
        }
    }
}
