//! helpers shared by file/CLI level stages (filled in as stages are added)
