//! helpers shared by file/CLI level stages: CLI runner with CPU-progress watchdog, output parsers.

use crate::common::Ctx;
use std::io::{Read, Write};
use std::process::{Command, Stdio};
use std::time::{Duration, Instant};

#[derive(Debug, Clone)]
pub struct CliOut {
    pub code: Option<i32>,
    pub signal: Option<i32>,
    pub stdout: Vec<u8>,
    pub stderr: String,
    pub cpu_s: f64,
    pub wall_s: f64,
    /// wall-clock watchdog fired (inconclusive unless one of the two hang signatures holds)
    pub timed_out: bool,
    /// consumed more CPU than the bound for a tiny input
    pub cpu_exceeded: bool,
    /// no CPU progress for the stall window while alive
    pub stalled: bool,
    pub valgrind_errors: bool,
}

impl CliOut {
    pub fn ok(&self) -> bool {
        self.code == Some(0) && !self.timed_out
    }
    pub fn panicked(&self) -> bool {
        self.stderr.contains("panicked at") || self.code == Some(101) || self.signal.is_some()
    }
    pub fn describe(&self) -> String {
        format!(
            "exit={:?} signal={:?} timed_out={} cpu={:.2}s stderr={:?}",
            self.code,
            self.signal,
            self.timed_out,
            self.cpu_s,
            self.stderr.lines().filter(|l| !l.trim().is_empty()).last().unwrap_or("").chars().take(200).collect::<String>()
        )
    }
}

fn proc_cpu_seconds(pid: u32) -> Option<f64> {
    let s = std::fs::read_to_string(format!("/proc/{}/stat", pid)).ok()?;
    let rest = &s[s.rfind(')')? + 2..];
    let f: Vec<&str> = rest.split_whitespace().collect();
    // after "pid (comm)": state is f[0]; utime = field 14 overall -> index 11 here, stime index 12
    let ut: f64 = f.get(11)?.parse().ok()?;
    let stt: f64 = f.get(12)?.parse().ok()?;
    let hz = unsafe { libc::sysconf(libc::_SC_CLK_TCK) } as f64;
    Some((ut + stt) / hz.max(1.0))
}

pub struct CliLimits {
    pub wall: Duration,
    pub cpu_max_s: f64,
    pub stall: Duration,
}

impl Default for CliLimits {
    fn default() -> Self {
        CliLimits { wall: Duration::from_secs(180), cpu_max_s: 60.0, stall: Duration::from_secs(30) }
    }
}

/// Run the real kmertools binary.  `valgrind` wraps it in memcheck (errors -> exit code 97).
pub fn run_cli(ctx: &Ctx, args: &[String], stdin: Option<&[u8]>, lim: &CliLimits) -> CliOut {
    run_cli_env(ctx, args, stdin, lim, &[], None)
}

/// How the child gets its standard input / what its execution environment looks like (beyond env + cwd).
#[derive(Clone, Debug, Default)]
pub struct CliExtra {
    /// stdin is a regular file already positioned `offset` bytes in (the bytes before it are junk)
    pub stdin_file_at_offset: Option<(String, u64)>,
    /// stdin is a unix socket fed with these bytes
    pub stdin_socket: Option<Vec<u8>>,
    /// stderr is a pseudo-terminal (progress bars draw only then)
    pub tty_stderr: bool,
    /// restrict the child to one CPU (sched_setaffinity in the child before exec)
    pub one_cpu: bool,
    /// feed piped stdin in chunks of at most this many bytes with occasional pauses (short reads at arbitrary offsets)
    pub stdin_dribble: Option<usize>,
}

static CLI_RUNS: std::sync::atomic::AtomicU64 = std::sync::atomic::AtomicU64::new(0);
static CLI_DRIBBLED: std::sync::atomic::AtomicU64 = std::sync::atomic::AtomicU64::new(0);
static CLI_ONE_CPU: std::sync::atomic::AtomicU64 = std::sync::atomic::AtomicU64::new(0);

/// (CLI runs, runs whose stdin arrived in small chunks, runs restricted to one CPU) of this stage process
pub fn cli_run_counters() -> (u64, u64, u64) {
    use std::sync::atomic::Ordering::Relaxed;
    (CLI_RUNS.load(Relaxed), CLI_DRIBBLED.load(Relaxed), CLI_ONE_CPU.load(Relaxed))
}

thread_local! {
    static CLI_EXTRA: std::cell::RefCell<CliExtra> = std::cell::RefCell::new(CliExtra::default());
}

/// run `f` with the given extra settings applied to every run_cli call made by this thread
pub fn with_cli_extra<T>(x: CliExtra, f: impl FnOnce() -> T) -> T {
    CLI_EXTRA.with(|c| *c.borrow_mut() = x);
    let r = f();
    CLI_EXTRA.with(|c| *c.borrow_mut() = CliExtra::default());
    r
}

/// same, with extra environment variables and an optional working directory
pub fn run_cli_env(ctx: &Ctx, args: &[String], stdin: Option<&[u8]>, lim: &CliLimits, env: &[(&str, &str)], cwd: Option<&str>) -> CliOut {
    let mut extra = CLI_EXTRA.with(|c| c.borrow().clone());
    let valgrind = ctx.opt("valgrind").is_some();
    // delivery / environment dimensions applied across *all* CLI stages, chosen from the command line itself (so a run
    // is reproducible): every other piped stdin arrives in small chunks; one run in six sees a single CPU
    {
        let h = refmodel::rng::hash_bytes(args.join("\u{1}").as_bytes()) ^ refmodel::rng::mix(stdin.map_or(0, |d| d.len() as u64));
        if stdin.is_some() && extra.stdin_dribble.is_none() && h % 2 == 0 {
            extra.stdin_dribble = Some([1usize, 7, 64, 4096][((h >> 8) % 4) as usize]);
        }
        if !valgrind && !extra.one_cpu && (h >> 16) % 6 == 3 {
            extra.one_cpu = true;
        }
        use std::sync::atomic::Ordering::Relaxed;
        CLI_RUNS.fetch_add(1, Relaxed);
        if stdin.is_some() && extra.stdin_dribble.is_some() {
            CLI_DRIBBLED.fetch_add(1, Relaxed);
        }
        if extra.one_cpu {
            CLI_ONE_CPU.fetch_add(1, Relaxed);
        }
    }
    let mut cmd = if valgrind {
        let mut c = Command::new("valgrind");
        c.args(["--quiet", "--error-exitcode=97", "--errors-for-leak-kinds=none", "--leak-check=no"]);
        c.arg(ctx.cli_path());
        c
    } else {
        Command::new(ctx.cli_path())
    };
    cmd.args(args);
    let mut socket_feeder = None;
    if let Some((path, off)) = &extra.stdin_file_at_offset {
        use std::io::{Seek, SeekFrom};
        let mut f = std::fs::File::open(path).expect("stdin file");
        f.seek(SeekFrom::Start(*off)).expect("seek");
        cmd.stdin(Stdio::from(f));
    } else if let Some(data) = &extra.stdin_socket {
        use std::os::fd::OwnedFd;
        use std::os::unix::net::UnixStream;
        let (a, b) = UnixStream::pair().expect("socketpair");
        let data = data.clone();
        socket_feeder = Some(std::thread::spawn(move || {
            let mut a = a;
            let _ = a.write_all(&data);
            let _ = a.shutdown(std::net::Shutdown::Both);
        }));
        cmd.stdin(Stdio::from(OwnedFd::from(b)));
    } else {
        cmd.stdin(if stdin.is_some() { Stdio::piped() } else { Stdio::null() });
    }
    cmd.stdout(Stdio::piped());
    let mut pty_master: Option<std::fs::File> = None;
    if extra.tty_stderr {
        use std::os::fd::{FromRawFd, OwnedFd};
        let mut master: libc::c_int = -1;
        let mut slave: libc::c_int = -1;
        let rc = unsafe { libc::openpty(&mut master, &mut slave, std::ptr::null_mut(), std::ptr::null(), std::ptr::null()) };
        if rc == 0 {
            cmd.stderr(Stdio::from(unsafe { OwnedFd::from_raw_fd(slave) }));
            cmd.env("TERM", "xterm");
            pty_master = Some(unsafe { std::fs::File::from_raw_fd(master) });
        } else {
            cmd.stderr(Stdio::piped());
        }
    } else {
        cmd.stderr(Stdio::piped());
    }
    if extra.one_cpu {
        use std::os::unix::process::CommandExt;
        unsafe {
            cmd.pre_exec(|| {
                let mut set: libc::cpu_set_t = std::mem::zeroed();
                libc::CPU_ZERO(&mut set);
                // the first CPU this process may run on
                let mut cur: libc::cpu_set_t = std::mem::zeroed();
                libc::sched_getaffinity(0, std::mem::size_of::<libc::cpu_set_t>(), &mut cur);
                let mut chosen = 0;
                for c in 0..1024 {
                    if libc::CPU_ISSET(c, &cur) {
                        chosen = c;
                        break;
                    }
                }
                libc::CPU_SET(chosen, &mut set);
                libc::sched_setaffinity(0, std::mem::size_of::<libc::cpu_set_t>(), &set);
                Ok(())
            });
        }
    }
    cmd.env("RUST_BACKTRACE", "0");
    cmd.env("NO_COLOR", "1");
    for (k, v) in env {
        cmd.env(k, v);
    }
    if let Some(d) = cwd {
        cmd.current_dir(d);
    }
    let started = Instant::now();
    let mut child = match cmd.spawn() {
        Ok(c) => c,
        Err(e) => {
            return CliOut {
                code: None,
                signal: None,
                stdout: vec![],
                stderr: format!("spawn failed: {}", e),
                cpu_s: 0.0,
                wall_s: 0.0,
                timed_out: true,
                cpu_exceeded: false,
                stalled: false,
                valgrind_errors: false,
            }
        }
    };
    let pid = child.id();
    let mut feeder = None;
    if let Some(data) = stdin {
        let mut si = child.stdin.take().unwrap();
        let data = data.to_vec();
        let dribble = extra.stdin_dribble;
        feeder = Some(std::thread::spawn(move || match dribble {
            None => {
                let _ = si.write_all(&data);
            }
            Some(maxc) => {
                let mut off = 0usize;
                let mut x = 0x9E37_79B9_7F4A_7C15u64 ^ data.len() as u64;
                let t0 = Instant::now();
                while off < data.len() {
                    x = x.wrapping_mul(6364136223846793005).wrapping_add(1442695040888963407);
                    // after two seconds of dribbling the rest goes out at once (bounded cost on big inputs)
                    let n = if t0.elapsed() > Duration::from_secs(2) { data.len() } else { 1 + ((x >> 33) as usize % maxc.max(1)) };
                    let end = (off + n).min(data.len());
                    if si.write_all(&data[off..end]).is_err() {
                        break;
                    }
                    let _ = si.flush();
                    off = end;
                    if (x >> 20) % 16 == 0 {
                        std::thread::sleep(Duration::from_micros(40));
                    }
                }
            }
        }));
    }
    let mut so = child.stdout.take().unwrap();
    let t_out = std::thread::spawn(move || {
        let mut v = Vec::new();
        let _ = so.read_to_end(&mut v);
        v
    });
    // the Command still holds the slave end of the pty (if any): drop it so that the master sees EOF
    drop(cmd);
    let t_err = match (child.stderr.take(), pty_master) {
        (Some(mut se), _) => std::thread::spawn(move || {
            let mut v = Vec::new();
            let _ = se.read_to_end(&mut v);
            v
        }),
        (None, Some(mut m)) => std::thread::spawn(move || {
            // reading a pty master ends with EIO once the child side is closed
            let mut v = Vec::new();
            let mut buf = [0u8; 4096];
            loop {
                match m.read(&mut buf) {
                    Ok(0) | Err(_) => break,
                    Ok(n) => v.extend_from_slice(&buf[..n]),
                }
            }
            v
        }),
        (None, None) => std::thread::spawn(Vec::new),
    };
    let mut timed_out = false;
    let mut cpu_exceeded = false;
    let mut stalled = false;
    let mut last_cpu = 0.0f64;
    let mut last_progress = Instant::now();
    let mut cpu = 0.0f64;
    let mut polls = 0u64;
    let status = loop {
        match child.try_wait() {
            Ok(Some(s)) => break Some(s),
            Ok(None) => {}
            Err(_) => break None,
        }
        polls += 1;
        if polls % 20 == 0 {
            if let Some(c) = proc_cpu_seconds(pid) {
                cpu = c;
                if c > last_cpu + 0.005 {
                    last_cpu = c;
                    last_progress = Instant::now();
                }
                if c > lim.cpu_max_s * if valgrind { 40.0 } else { 1.0 } {
                    cpu_exceeded = true;
                }
            }
            if last_progress.elapsed() > lim.stall {
                stalled = true;
            }
        }
        if started.elapsed() > lim.wall * if valgrind { 10 } else { 1 } {
            timed_out = true;
        }
        if timed_out || cpu_exceeded || stalled {
            let _ = child.kill();
            break child.wait().ok();
        }
        std::thread::sleep(Duration::from_millis(if polls < 200 { 1 } else { 5 }));
    };
    if let Some(f) = feeder {
        let _ = f.join();
    }
    if let Some(f) = socket_feeder {
        let _ = f.join();
    }
    let stdout = t_out.join().unwrap_or_default();
    let stderr = String::from_utf8_lossy(&t_err.join().unwrap_or_default()).into_owned();
    use std::os::unix::process::ExitStatusExt;
    let (code, signal) = match status {
        Some(s) => (s.code(), s.signal()),
        None => (None, None),
    };
    CliOut {
        code,
        signal: if timed_out || cpu_exceeded || stalled { None } else { signal },
        stdout,
        stderr,
        cpu_s: cpu,
        wall_s: started.elapsed().as_secs_f64(),
        timed_out,
        cpu_exceeded,
        stalled,
        valgrind_errors: valgrind && code == Some(97),
    }
}

pub fn sv(xs: &[&str]) -> Vec<String> {
    xs.iter().map(|s| s.to_string()).collect()
}

/// Split file content into lines (without terminators); a trailing newline does not create an
/// extra empty line, an empty file has zero lines.
pub fn lines(data: &[u8]) -> Vec<&[u8]> {
    if data.is_empty() {
        return vec![];
    }
    let body = if data.ends_with(b"\n") { &data[..data.len() - 1] } else { data };
    body.split(|&b| b == b'\n').collect()
}

pub fn split_fields<'a>(line: &'a [u8], delim: &[u8]) -> Vec<&'a [u8]> {
    if delim.is_empty() {
        return vec![line];
    }
    let mut out = Vec::new();
    let mut start = 0;
    let mut i = 0;
    while i + delim.len() <= line.len() {
        if &line[i..i + delim.len()] == delim {
            out.push(&line[start..i]);
            i += delim.len();
            start = i;
        } else {
            i += 1;
        }
    }
    out.push(&line[start..]);
    out
}

pub fn parse_f64(b: &[u8]) -> Option<f64> {
    std::str::from_utf8(b).ok()?.trim().parse::<f64>().ok()
}

/// "value printed with 6 decimals equals count/total correct to 6 decimals":
/// |p - c/t| <= 0.5e-6 (+ slack for f64 division then decimal rounding).
pub fn frac_matches(printed: f64, c: u64, t: u64) -> bool {
    if t == 0 {
        return printed == 0.0;
    }
    let exact = c as f64 / t as f64;
    (printed - exact).abs() <= 0.5e-6 + 1e-9
}

pub fn truncate(s: &str, n: usize) -> String {
    if s.len() <= n {
        s.to_string()
    } else {
        let mut e = n;
        while !s.is_char_boundary(e) {
            e -= 1;
        }
        format!("{}…", &s[..e])
    }
}
