//! C10 — minimiser outputs: s2m lists each record's runs; m2s is its exact inversion.

use crate::common::*;
use crate::sched::{next_prefix, Controller, Mode, Policy, RunTrace};
use crate::util::*;
use refmodel::gen::{gen_records, gen_seq, Rec, SeqClass};
use refmodel::json::Json;
use refmodel::model;
use refmodel::rng::{hash_bytes, mix, Rng};
use refmodel::ser::{self, SerOpts};
use std::collections::{BTreeMap, HashSet};
use std::sync::Arc;

pub type Run = (String, usize, usize); // (minimiser text, start, end)

/// reference runs of one record (w = 0 => one window spanning the whole record)
pub fn ref_runs(seq: &[u8], w: usize, m: usize) -> Vec<Run> {
    let w_eff = if w == 0 { seq.len() } else { w };
    if w_eff < m {
        return vec![];
    }
    model::minimiser_runs(seq, w_eff, m).into_iter().map(|(v, s, e)| (model::decode(v, m), s, e)).collect()
}

#[derive(Debug)]
pub struct ParseError(pub String);

/// s2m: `id \t mmer:s-e \t ... \t \n` (the writer leaves a trailing tab)
pub fn parse_s2m(data: &[u8]) -> Result<Vec<(String, Vec<Run>)>, ParseError> {
    let mut out = Vec::new();
    for l in lines(data) {
        let s = std::str::from_utf8(l).map_err(|_| ParseError("non-UTF8 line".into()))?;
        let mut parts: Vec<&str> = s.split('\t').collect();
        while parts.len() > 1 && parts.last() == Some(&"") {
            parts.pop();
        }
        let id = parts[0].to_string();
        let mut runs = Vec::new();
        for p in &parts[1..] {
            let (mm, range) = p.rsplit_once(':').ok_or_else(|| ParseError(format!("run without ':' in {:?}", s)))?;
            let (a, b) = range.split_once('-').ok_or_else(|| ParseError(format!("range without '-' in {:?}", s)))?;
            let a: usize = a.parse().map_err(|_| ParseError(format!("bad start in {:?}", s)))?;
            let b: usize = b.parse().map_err(|_| ParseError(format!("bad end in {:?}", s)))?;
            runs.push((mm.to_string(), a, b));
        }
        out.push((id, runs));
    }
    Ok(out)
}

/// m2s: `mmer \t [("id", s, e), ("id", s, e)]`
pub fn parse_m2s(data: &[u8]) -> Result<Vec<(String, Vec<Run>)>, ParseError> {
    let mut out = Vec::new();
    for l in lines(data) {
        let s = std::str::from_utf8(l).map_err(|_| ParseError("non-UTF8 line".into()))?;
        let (key, list) = s.split_once('\t').ok_or_else(|| ParseError(format!("line without tab: {:?}", s)))?;
        let list = list.trim();
        let inner = list.strip_prefix('[').and_then(|x| x.strip_suffix(']')).ok_or_else(|| ParseError(format!("value not a list: {:?}", s)))?;
        let mut items = Vec::new();
        let mut rest = inner.trim();
        while !rest.is_empty() {
            let r = rest.strip_prefix("(\"").ok_or_else(|| ParseError(format!("item does not start with (\" in {:?}", s)))?;
            let q = r.find('"').ok_or_else(|| ParseError("unterminated id".into()))?;
            let id = &r[..q];
            let r = r[q + 1..].strip_prefix(", ").ok_or_else(|| ParseError("missing comma".into()))?;
            let close = r.find(')').ok_or_else(|| ParseError("unterminated tuple".into()))?;
            let (a, b) = r[..close].split_once(", ").ok_or_else(|| ParseError("tuple arity".into()))?;
            let a: usize = a.trim().parse().map_err(|_| ParseError("bad start".into()))?;
            let b: usize = b.trim().parse().map_err(|_| ParseError("bad end".into()))?;
            items.push((id.to_string(), a, b));
            rest = r[close + 1..].trim_start_matches(',').trim();
        }
        out.push((key.to_string(), items));
    }
    Ok(out)
}

pub fn check_s2m(data: &[u8], recs: &[Rec], w: usize, m: usize) -> Result<(), (String, String)> {
    let parsed = parse_s2m(data).map_err(|e| ("HARNESS.s2m_parse".to_string(), e.0))?;
    if parsed.len() != recs.len() {
        return Err(("s2m.linecount".into(), format!("{} lines for {} records", parsed.len(), recs.len())));
    }
    // ids need not be unique (mates under one id, a record present twice): compare the *multiset* of
    // (id, runs) lines; for unique ids this is the per-id comparison
    let mut exp_lines: Vec<(String, Vec<Run>)> = recs.iter().map(|r| (r.id.clone(), ref_runs(&r.seq, w, m))).collect();
    let mut got_lines: Vec<(String, Vec<Run>)> = parsed.clone();
    exp_lines.sort();
    got_lines.sort();
    if exp_lines != got_lines {
        // find a telling difference
        let mut by_id: BTreeMap<&str, Vec<&Vec<Run>>> = BTreeMap::new();
        for (id, runs) in &parsed {
            by_id.entry(id.as_str()).or_default().push(runs);
        }
        for r in recs {
            let exp = ref_runs(&r.seq, w, m);
            match by_id.get(r.id.as_str()) {
                None => return Err(("s2m.missing_id".into(), format!("no line for record {}", r.id))),
                Some(cands) => {
                    if !cands.iter().any(|g| **g == exp) {
                        let got = cands[0];
                        let sig = if got.iter().any(|g| !exp.iter().any(|e| e.0 == g.0)) && got.iter().any(|g| g.0.bytes().all(|b| b == b'T')) && !exp.iter().any(|e| e.0.bytes().all(|b| b == b'T')) {
                            "s2m.placeholder"
                        } else {
                            "s2m.runs"
                        };
                        return Err((
                            sig.into(),
                            format!("record {} (len {}): listed runs {:?} != expected {:?}", r.id, r.seq.len(), &got[..got.len().min(6)], &exp[..exp.len().min(6)]),
                        ));
                    }
                }
            }
        }
        return Err(("s2m.lines_multiset".into(), "the multiset of (id, runs) lines differs from the expected one (duplicate or missing line for a repeated id)".into()));
    }
    Ok(())
}

pub fn expected_inversion(recs: &[Rec], w: usize, m: usize) -> BTreeMap<String, Vec<Run>> {
    let mut inv: BTreeMap<String, Vec<Run>> = BTreeMap::new();
    for r in recs {
        for (mm, s, e) in ref_runs(&r.seq, w, m) {
            inv.entry(mm).or_default().push((r.id.clone(), s, e));
        }
    }
    for v in inv.values_mut() {
        v.sort();
    }
    inv
}

pub fn check_m2s(data: &[u8], recs: &[Rec], w: usize, m: usize) -> Result<(), (String, String)> {
    let parsed = parse_m2s(data).map_err(|e| ("HARNESS.m2s_parse".to_string(), e.0))?;
    let exp = expected_inversion(recs, w, m);
    let mut got: BTreeMap<String, Vec<Run>> = BTreeMap::new();
    for (k, mut v) in parsed {
        v.sort();
        if got.insert(k.clone(), v).is_some() {
            return Err(("m2s.duplicate_key".into(), format!("minimiser {} appears on two lines", k)));
        }
    }
    for (k, v) in &exp {
        match got.get(k) {
            None => return Err(("m2s.missing_key".into(), format!("minimiser {} ({} attributions) has no line", k, v.len()))),
            Some(g) if g != v => {
                let sig = if g.len() < v.len() { "m2s.attribution_lost" } else if g.len() > v.len() { "m2s.attribution_extra" } else { "m2s.attribution_wrong" };
                return Err((sig.into(), format!("minimiser {}: {} attributions listed, {} expected; listed {:?} expected {:?}", k, g.len(), v.len(), &g[..g.len().min(4)], &v[..v.len().min(4)])));
            }
            _ => {}
        }
    }
    if let Some(k) = got.keys().find(|k| !exp.contains_key(*k)) {
        let sig = if k.bytes().all(|b| b == b'T') { "m2s.placeholder" } else { "m2s.extra_key" };
        return Err((sig.into(), format!("minimiser {} is listed but no record has it", k)));
    }
    Ok(())
}

/// m2s lines carry unordered lists: compare them as (key, sorted multiset of tuples)
pub fn normalise_m2s(data: &[u8]) -> Vec<String> {
    match parse_m2s(data) {
        Ok(mut v) => {
            for (_, items) in v.iter_mut() {
                items.sort();
            }
            let mut out: Vec<String> = v.into_iter().map(|(k, items)| format!("{}\t{:?}", k, items)).collect();
            out.sort();
            out
        }
        Err(_) => {
            let mut out: Vec<String> = lines(data).iter().map(|l| String::from_utf8_lossy(l).into_owned()).collect();
            out.sort();
            out
        }
    }
}

#[derive(Clone, Copy, Debug, PartialEq)]
pub enum MinMode {
    S2m,
    M2s,
}

pub fn run_min(mode: MinMode, w: usize, m: usize, inp: &str, outp: &str, threads: usize, ctl: Option<&Arc<Controller>>) -> (Result<(), String>, Option<Vec<u8>>, Option<RunTrace>) {
    super::oligo::prepare_output(outp);
    if let Some(c) = ctl {
        c.install();
    }
    let r = guarded(|| match mode {
        MinMode::S2m => misc::minimisers::seq_to_min(w, m, inp, outp, threads),
        MinMode::M2s => misc::minimisers::bin_sequences(w, m, inp, outp, threads),
    });
    let trace = ctl.map(|c| c.finish());
    (r, std::fs::read(outp).ok(), trace)
}

fn gen_case(rng: &mut Rng, max_recs: usize, cli: bool) -> (Vec<Rec>, usize, usize) {
    let m = if cli { rng.usize(7, 28) } else { rng.usize(1, 28) };
    let w = if rng.chance(1, 3) { 0 } else { m + 1 + rng.usize(0, 59) };
    let nrec = rng.usize(1, max_recs);
    let mut recs = gen_records(rng, nrec, m, Some(if w == 0 { m + 10 } else { w }), 300, 0);
    if rng.chance(1, 2) {
        // low complexity: many records share one minimiser (contention on one map entry)
        let c = *rng.pick(&[SeqClass::HomoPolymer, SeqClass::Period2, SeqClass::Tandem, SeqClass::TwoLetter]);
        let plen = rng.usize(m, m + 120);
        let proto = gen_seq(rng, c, plen, true);
        for (j, r) in recs.iter_mut().enumerate() {
            if j % 3 != 2 {
                r.seq = proto[..proto.len() - (j % 5).min(proto.len().saturating_sub(m))].to_vec();
            }
        }
    }
    if rng.chance(1, 8) && recs.len() >= 2 {
        // repeated ids: a record present twice, and "mates" under one id (second = reverse complement of the first)
        let n = recs.len();
        let a = rng.usize(0, n - 1);
        let dup = recs[a].clone();
        recs.push(dup);
        let b = rng.usize(0, n - 1);
        let mate = Rec { id: recs[b].id.clone(), desc: None, seq: model::revcomp_text(&recs[b].seq) };
        recs.push(mate);
    }
    (recs, w, m)
}

fn case_json(recs: &[Rec], w: usize, m: usize, threads: usize, mode: MinMode, tag: &str) -> Json {
    Json::obj()
        .set("w", Json::u(w))
        .set("m", Json::u(m))
        .set("threads", Json::u(threads))
        .set("mode", Json::s(format!("{:?}", mode)))
        .set("schedule_source", Json::s(tag))
        .set("records", super::oligo::recs_json(recs))
}

fn judge(st: &mut Stats, mode: MinMode, res: &(Result<(), String>, Option<Vec<u8>>, Option<RunTrace>), recs: &[Rec], w: usize, m: usize, threads: usize, tag: &str) -> bool {
    let case = || case_json(recs, w, m, threads, mode, tag);
    if let Err(p) = &res.0 {
        let short = w == 0 && recs.iter().any(|r| r.seq.len() < m);
        let sig = if short && p.contains("capacity overflow") { "min.w0.short".to_string() } else { panic_sig(p) };
        st.violate(&sig, format!("{:?} panicked: {}", mode, p), case());
        return false;
    }
    if let Some(tr) = &res.2 {
        if tr.aborted {
            st.inconclusive(format!("{}: controller watchdog fired", tag));
            return false;
        }
    }
    let data = res.1.clone().unwrap_or_default();
    let r = match mode {
        MinMode::S2m => check_s2m(&data, recs, w, m),
        MinMode::M2s => check_m2s(&data, recs, w, m),
    };
    match r {
        Err((sig, msg)) if sig == "HARNESS.s2m_parse" => {
            // the statement fixes the shape of an s2m line (id, then m-mer:start-end items): a line that
            // is not of that shape (e.g. two records' fragments interleaved) violates it
            st.violate("s2m.malformed_line", msg, case());
            false
        }
        Err((sig, msg)) if sig.starts_with("HARNESS.") => {
            st.inconclusive(format!("output could not be parsed ({}): {}", sig, msg));
            false
        }
        Err((sig, msg)) => {
            st.violate(&sig, msg, case());
            false
        }
        Ok(()) => true,
    }
}

/// bulk: random inputs, both modes, threads 1..16, free-running (no sink), outputs of both modes cross-checked
pub fn lib(ctx: &Ctx) -> Stats {
    let n = ctx.n(400, 15_000);
    par_cases(ctx, n, |idx, st| {
        let mut rng = Rng::keyed(ctx.seed, "c10.lib", idx);
        let (recs, w, m) = gen_case(&mut rng, 60, false);
        let sc = Scratch::new(ctx, "c10");
        let inp = sc.write("in.fa", &ser::to_fasta(&recs, &SerOpts::plain()));
        let total_runs: usize = recs.iter().map(|r| ref_runs(&r.seq, w, m).len()).sum();
        st.case(total_runs > 0, mix(idx) ^ hash_bytes(&recs[0].seq));
        st.class(if w == 0 { "w=0" } else { "w>m" });
        let t1 = rng.usize(1, 16);
        let t2 = rng.usize(1, 16);
        let a = run_min(MinMode::S2m, w, m, &inp, &sc.path("s2m.txt"), t1, None);
        let b = run_min(MinMode::M2s, w, m, &inp, &sc.path("m2s.txt"), t2, None);
        let ok = judge(st, MinMode::S2m, &a, &recs, w, m, t1, "free") & judge(st, MinMode::M2s, &b, &recs, w, m, t2, "free");
        if ok && idx % 97 == 0 {
            st.sample(Json::obj().set("w", Json::u(w)).set("m", Json::u(m)).set("records", Json::u(recs.len())).set("runs_total", Json::u(total_runs)).set("first_record", Json::bytes(&recs[0].seq)));
        }
    })
}

pub fn sched_exhaustive(ctx: &Ctx) -> Stats {
    let mut st = Stats::new();
    let configs: &[(usize, usize)] = if ctx.tier == Tier::Quick { &[(2, 3), (3, 4)] } else { &[(2, 3), (3, 4), (3, 5), (2, 6), (4, 5)] };
    let mut summary = Json::arr();
    for (ci, &(threads, nrec)) in configs.iter().enumerate() {
        for mode in [MinMode::S2m, MinMode::M2s] {
            let mut rng = Rng::keyed(ctx.seed, "c10.sched_exhaustive", ci as u64);
            let m = rng.usize(2, 5);
            let w = if ci % 2 == 0 { m + 3 } else { 0 };
            // records sharing minimisers so that m2s entries are contended
            let proto = gen_seq(&mut rng, SeqClass::TwoLetter, m + 14, true);
            let recs: Vec<Rec> = (0..nrec).map(|i| Rec { id: format!("r{}", i), desc: None, seq: proto[i % 3..].to_vec() }).collect();
            let sc = Scratch::new(ctx, "c10x");
            let inp = sc.write("in.fa", &ser::to_fasta(&recs, &SerOpts::plain()));
            let (took, exit) = if mode == MinMode::S2m { ("s2m.took", "s2m.exit") } else { ("m2s.took", "m2s.exit") };
            let mut prefix: Vec<u32> = vec![];
            let mut runs = 0u64;
            let mut orders: HashSet<Vec<u64>> = HashSet::new();
            let mut complete = true;
            loop {
                if ctx.expired() || runs > 100_000 {
                    st.truncated = true;
                    complete = false;
                    break;
                }
                let ctl = Controller::new(Mode::Controlled(Policy::First), threads, took, exit, prefix.clone());
                let res = run_min(mode, w, m, &inp, &sc.path("out.txt"), threads, Some(&ctl));
                runs += 1;
                let choices = res.2.as_ref().map(|t| t.choices.clone()).unwrap_or_default();
                st.case(choices.len() >= 2, hash_bytes(format!("{:?}|{}|{:?}", mode, ci, choices).as_bytes()));
                orders.insert(choices.iter().map(|c| c.2).collect());
                if res.2.as_ref().map_or(true, |t| t.events.iter().all(|e| e.site != took)) {
                    st.inconclusive(format!("hook {} never reached", took));
                    complete = false;
                    break;
                }
                judge(&mut st, mode, &res, &recs, w, m, threads, "exhaustive");
                match next_prefix(&choices) {
                    Some(p) => prefix = p,
                    None => break,
                }
            }
            summary.push(
                Json::obj()
                    .set("mode", Json::s(format!("{:?}", mode)))
                    .set("threads", Json::u(threads))
                    .set("records", Json::u(nrec))
                    .set("schedules_executed", Json::Int(runs as i128))
                    .set("distinct_processing_orders", Json::u(orders.len()))
                    .set("all_schedules_enumerated", Json::Bool(complete)),
            );
            st.sample(case_json(&recs, w, m, threads, mode, "exhaustive").set("schedules", Json::Int(runs as i128)));
        }
    }
    st.set_extra("exhaustive", Json::Bool(!st.truncated));
    st.set_extra("configurations", summary);
    st
}

pub fn sched_random(ctx: &Ctx) -> Stats {
    let mut st = Stats::new();
    let n = ctx.n(80, 4000);
    for i in 0..n {
        if ctx.expired() {
            st.truncated = true;
            break;
        }
        let mut rng = Rng::keyed(ctx.seed, "c10.sched_random", i);
        let (recs, w, m) = gen_case(&mut rng, 80, false);
        let threads = rng.usize(2, 16);
        let mode = if i % 2 == 0 { MinMode::S2m } else { MinMode::M2s };
        let (took, exit) = if mode == MinMode::S2m { ("s2m.took", "s2m.exit") } else { ("m2s.took", "m2s.exit") };
        let sc = Scratch::new(ctx, "c10r");
        let inp = sc.write("in.fa", &ser::to_fasta(&recs, &SerOpts::plain()));
        let (smode, tag) = match i % 3 {
            0 => (Mode::Controlled(Policy::Random(rng.next_u64())), "random"),
            1 => (Mode::Controlled(Policy::Pct { seed: rng.next_u64(), change_every: rng.range(2, 30) as u32 }), "pct"),
            _ => (Mode::Perturbed { seed: rng.next_u64(), max_us: 150 }, "free+perturbation"),
        };
        let ctl = Controller::new(smode, threads, took, exit, vec![]);
        let res = run_min(mode, w, m, &inp, &sc.path("out.txt"), threads, Some(&ctl));
        st.case(recs.len() >= 2, mix(i) ^ hash_bytes(&recs[0].seq));
        st.class(tag);
        st.class(&format!("{:?}", mode));
        judge(&mut st, mode, &res, &recs, w, m, threads, tag);
        if i % 37 == 0 {
            st.sample(Json::obj().set("w", Json::u(w)).set("m", Json::u(m)).set("threads", Json::u(threads)).set("mode", Json::s(format!("{:?}", mode))).set("records", Json::u(recs.len())));
        }
    }
    st
}

pub fn cli(ctx: &Ctx) -> Stats {
    let n = ctx.n(30, 800);
    par_cases(ctx, n, |idx, st| {
        let mut rng = Rng::keyed(ctx.seed, "c10.cli", idx);
        let (recs, mut w, m) = gen_case(&mut rng, 40, true);
        if idx % 10 == 7 {
            // "any w > m": a window far beyond every record length — nothing to report, one empty line per record
            w = [1_000_000usize, 10_000_000_000, 10_000_000_000_000, 1 << 62][(idx / 10 % 4) as usize];
            st.class("window far longer than every record");
        }
        let mut mode = if idx % 2 == 0 { MinMode::S2m } else { MinMode::M2s };
        let mut threads = rng.usize(0, 16);
        let mut recs = recs;
        if idx % 16 == 5 {
            mode = if (idx / 16) % 3 != 2 { MinMode::S2m } else { MinMode::M2s };
            // (a named-pipe case with a listing of several hundred kilobytes written by several workers)
            let n = rng.usize(2500, 4000);
            recs = (0..n).map(|i| Rec { id: format!("p{}", i), desc: None, seq: gen_seq(&mut rng, SeqClass::Uniform, 80 + i % 70, true) }).collect();
            threads = rng.usize(2, 16);
        }
        let sc = Scratch::new(ctx, "c10c");
        let inp = sc.write("in.fa", &ser::to_fasta(&recs, &SerOpts::plain()));
        let outp = sc.path("out.txt");
        let args = sv(&["min", "-i", &inp, "-o", &outp, "-m", &m.to_string(), "-w", &w.to_string(), "-p", if mode == MinMode::S2m { "s2m" } else { "m2s" }, "-t", &threads.to_string()]);
        // one case in eight: the listing goes to a named pipe that a reader drains (writes to a pipe are only atomic up
        // to 4 KiB and arrive in whatever pieces the writers issue them — a regular file hides both)
        let fifo = idx % 8 == 5;
        let mut fifo_reader = None;
        let fifo_done = std::sync::Arc::new(std::sync::atomic::AtomicBool::new(false));
        if fifo {
            let _ = std::fs::remove_file(&outp);
            let c = std::ffi::CString::new(outp.clone()).unwrap();
            if unsafe { libc::mkfifo(c.as_ptr(), 0o644) } != 0 {
                st.inconclusive("mkfifo failed".into());
                return;
            }
            // opened read+write by the harness: never blocks, and the pipe stays alive whatever the tool does
            let fd = unsafe { libc::open(c.as_ptr(), libc::O_RDWR | libc::O_NONBLOCK) };
            if fd < 0 {
                st.inconclusive("cannot open the fifo".into());
                return;
            }
            let done = fifo_done.clone();
            fifo_reader = Some(std::thread::spawn(move || {
                let mut out = Vec::new();
                let mut buf = vec![0u8; 1 << 16];
                loop {
                    let n = unsafe { libc::read(fd, buf.as_mut_ptr() as *mut libc::c_void, buf.len()) };
                    if n > 0 {
                        out.extend_from_slice(&buf[..n as usize]);
                    } else if done.load(std::sync::atomic::Ordering::Relaxed) {
                        // the tool has exited: one more look, then stop
                        let n = unsafe { libc::read(fd, buf.as_mut_ptr() as *mut libc::c_void, buf.len()) };
                        if n > 0 {
                            out.extend_from_slice(&buf[..n as usize]);
                            continue;
                        }
                        break;
                    } else {
                        std::thread::sleep(std::time::Duration::from_micros(200));
                    }
                }
                unsafe { libc::close(fd) };
                out
            }));
            st.class("output is a named pipe");
        }
        // one case in eight: the *input* is a named pipe fed by a producer that stalls for 400 ms twice (a decompressor
        // or a network stream upstream): a pause is not the end of the input.  Named-pipe input is not a documented
        // feature, so a control run without stalls comes first; only a build that handles the pipe itself is judged.
        let in_fifo = idx % 16 == 9 || idx % 16 == 12;
        let fpath = sc.path("stream.fa");
        let feed = |stall_ms: u64| -> Option<std::thread::JoinHandle<()>> {
            let _ = std::fs::remove_file(&fpath);
            let c = std::ffi::CString::new(fpath.clone()).unwrap();
            if unsafe { libc::mkfifo(c.as_ptr(), 0o644) } != 0 {
                return None;
            }
            let data = ser::to_fasta(&recs, &SerOpts::plain());
            let fp = fpath.clone();
            Some(std::thread::spawn(move || {
                use std::io::Write;
                // the open succeeds once the tool has opened the pipe for reading; give up after 20 s
                let c = std::ffi::CString::new(fp).unwrap();
                let t0 = std::time::Instant::now();
                let fd = loop {
                    let fd = unsafe { libc::open(c.as_ptr(), libc::O_WRONLY | libc::O_NONBLOCK) };
                    if fd >= 0 || t0.elapsed() > std::time::Duration::from_secs(20) {
                        break fd;
                    }
                    std::thread::sleep(std::time::Duration::from_millis(2));
                };
                if fd < 0 {
                    return;
                }
                unsafe {
                    let fl = libc::fcntl(fd, libc::F_GETFL);
                    libc::fcntl(fd, libc::F_SETFL, fl & !libc::O_NONBLOCK);
                }
                use std::os::fd::FromRawFd;
                let mut f = unsafe { std::fs::File::from_raw_fd(fd) };
                let cut1 = data.len() / 3;
                let cut2 = 2 * data.len() / 3;
                let _ = f.write_all(&data[..cut1]);
                std::thread::sleep(std::time::Duration::from_millis(stall_ms));
                let _ = f.write_all(&data[cut1..cut2]);
                std::thread::sleep(std::time::Duration::from_millis(stall_ms));
                let _ = f.write_all(&data[cut2..]);
            }))
        };
        let fifo_args: Vec<String> = args.iter().map(|a| if a == &inp { fpath.clone() } else { a.clone() }).collect();
        let mut use_fifo_input = false;
        if in_fifo && !fifo {
            // control: the same pipe without stalls
            if let Some(h) = feed(0) {
                let r0 = run_cli(ctx, &fifo_args, None, &CliLimits::default());
                let _ = h.join();
                let d0 = std::fs::read(&outp).unwrap_or_default();
                let ok0 = r0.ok() && match mode {
                    MinMode::S2m => check_s2m(&d0, &recs, w, m).is_ok(),
                    MinMode::M2s => check_m2s(&d0, &recs, w, m).is_ok(),
                };
                let _ = std::fs::remove_file(&outp);
                if ok0 {
                    use_fifo_input = true;
                } else {
                    st.class("named-pipe input not handled by this build (not judged)");
                }
            }
        }
        let mut feeder = None;
        let args = if use_fifo_input {
            feeder = feed(400);
            st.class("input is a named pipe with a stalling producer");
            fifo_args.clone()
        } else {
            args
        };
        let res = run_cli(ctx, &args, None, &CliLimits::default());
        if let Some(h) = feeder {
            let _ = h.join();
        }
        let _ = std::fs::remove_file(&fpath);
        fifo_done.store(true, std::sync::atomic::Ordering::Relaxed);
        let fifo_data = fifo_reader.map(|h| h.join().unwrap_or_default());
        // a tool that publishes its result by renaming a finished file over `-o` turns the pipe into a regular file: the
        // reader of the pipe then receives nothing, but the path holds the result — C10 speaks about the listing, not about
        // what kind of file `-o` is, so such a run is judged on the file it left (and counted separately)
        let replaced_by_file: Option<Vec<u8>> = if fifo && std::fs::symlink_metadata(&outp).map_or(false, |m| m.file_type().is_file()) { std::fs::read(&outp).ok() } else { None };
        if fifo {
            let _ = std::fs::remove_file(&outp);
        }
        let total_runs: usize = recs.iter().map(|r| ref_runs(&r.seq, w, m).len()).sum();
        st.case(total_runs > 0, mix(idx) ^ hash_bytes(args.join(" ").as_bytes()));
        let case = || Json::obj().set("argv", Json::s(args.join(" "))).set("records", super::oligo::recs_json(&recs));
        if res.timed_out && !res.cpu_exceeded && !res.stalled {
            st.inconclusive(format!("CLI watchdog: {}", res.describe()));
            return;
        }
        if !res.ok() {
            let short = w == 0 && recs.iter().any(|r| r.seq.len() < m);
            let sig = if short && res.stderr.contains("capacity overflow") { "cli.min.w0.short" } else { "cli.min.exit" };
            st.violate(sig, format!("min failed: {}", res.describe()), case());
            return;
        }
        let data = match (fifo_data, replaced_by_file) {
            (Some(_), Some(file)) => {
                st.class("named-pipe output replaced by a regular file (judged on the file)");
                file
            }
            (Some(d), None) => d,
            (None, _) => std::fs::read(&outp).unwrap_or_default(),
        };
        let r = match mode {
            MinMode::S2m => check_s2m(&data, &recs, w, m),
            MinMode::M2s => check_m2s(&data, &recs, w, m),
        };
        match r {
            Err((sig, msg)) if sig == "HARNESS.s2m_parse" => st.violate("cli.s2m.malformed_line", msg, case()),
            Err((sig, msg)) if sig.starts_with("HARNESS.") => st.inconclusive(format!("unparseable: {}", msg)),
            Err((sig, msg)) => st.violate(&format!("cli.{}", sig), msg, case()),
            Ok(()) => {
                if idx % 13 == 0 {
                    st.sample(Json::obj().set("argv", Json::s(args.join(" "))).set("runs_total", Json::u(total_runs)));
                }
            }
        }
    })
}

/// stress without any sink (for the ThreadSanitizer flavour): many records sharing few minimisers,
/// 16 workers, both modes
pub fn stress(ctx: &Ctx) -> Stats {
    let mut st = Stats::new();
    let n = ctx.n(30, 120);
    for i in 0..n {
        if ctx.expired() {
            st.truncated = true;
            break;
        }
        let mut rng = Rng::keyed(ctx.seed, "c10.stress", i);
        let (recs, w, m) = gen_case(&mut rng, 300, false);
        let sc = Scratch::new(ctx, "c10s");
        let inp = sc.write("in.fa", &ser::to_fasta(&recs, &SerOpts::plain()));
        let mode = if i % 2 == 0 { MinMode::S2m } else { MinMode::M2s };
        st.case(recs.len() >= 2, mix(i) ^ hash_bytes(&recs[0].seq));
        st.class(&format!("{:?}", mode));
        let res = run_min(mode, w, m, &inp, &sc.path("out.txt"), 16, None);
        judge(&mut st, mode, &res, &recs, w, m, 16, "stress");
        if i % 17 == 0 {
            st.sample(Json::obj().set("w", Json::u(w)).set("m", Json::u(m)).set("records", Json::u(recs.len())).set("mode", Json::s(format!("{:?}", mode))));
        }
    }
    st
}

/// inputs of more than 2^20 bases in total (12000..25000 records): scale effects in the shared reader /
/// work distribution, both modes, judged with the same per-record and inversion monitors
/// output volume under many workers: long records with a run every other base, so that every worker produces
/// megabytes of listing text (tens of kilobytes per record) and all of them compete for the writer all the time —
/// a line lost, duplicated, torn or truncated when worker-local text is handed to the shared writer shows up here.
pub fn bulk(ctx: &Ctx) -> Stats {
    let n = ctx.n(2, 10);
    let mut st = Stats::new();
    for idx in 0..n {
        if ctx.expired() {
            st.truncated = true;
            break;
        }
        let mut rng = Rng::keyed(ctx.seed, "c10.bulk", idx);
        let m = rng.usize(5, 8);
        let w = m + rng.usize(1, 3);
        let nrec = rng.usize(2000, 2600);
        let recs: Vec<Rec> = (0..nrec)
            .map(|i| {
                let len = if rng.chance(1, 40) { rng.usize(0, w) } else { rng.usize(2000, 4000) };
                Rec { id: format!("B{}", i), desc: None, seq: gen_seq(&mut rng, SeqClass::Uniform, len, true) }
            })
            .collect();
        let total: usize = recs.iter().map(|r| r.seq.len()).sum();
        let sc = Scratch::new(ctx, "c10B");
        let inp = sc.write("in.fa", &ser::to_fasta(&recs, &SerOpts::plain()));
        let mode = if idx % 4 == 3 { MinMode::M2s } else { MinMode::S2m };
        let threads = [16usize, 8, 5, 16][(idx % 4) as usize];
        st.case(true, mix(idx) ^ mix(total as u64));
        st.class(&format!("{:?} threads={}", mode, threads));
        let res = run_min(mode, w, m, &inp, &sc.path("out.txt"), threads, None);
        let bytes = res.1.as_ref().map_or(0, |o| o.len());
        judge(&mut st, mode, &res, &recs, w, m, threads, "bulk");
        st.sample(Json::obj().set("w", Json::u(w)).set("m", Json::u(m)).set("records", Json::u(nrec)).set("total_bases", Json::u(total)).set("output_bytes", Json::u(bytes)).set("threads", Json::u(threads)).set("mode", Json::s(format!("{:?}", mode))));
    }
    st
}

/// one straggler: a single record of a few megabases (tens of milliseconds of work, a line of several megabytes)
/// among ten thousand short reads, 2-8 workers — the worker that holds the long record falls thousands of records
/// behind the others, which is when bounded reorder buffers, sequence-numbered slots and hand-off queues overflow
pub fn straggler(ctx: &Ctx) -> Stats {
    let n = ctx.n(5, 20);
    let mut st = Stats::new();
    for idx in 0..n {
        if ctx.expired() {
            st.truncated = true;
            break;
        }
        let mut rng = Rng::keyed(ctx.seed, "c10.straggler", idx);
        let m = rng.usize(6, 10);
        let w = m + rng.usize(4, 10);
        let nshort = rng.usize(12_000, 18_000);
        let long_len = rng.usize(3_000_000, 5_000_000);
        let long_at = match idx % 3 {
            0 => 0,
            1 => nshort / 2,
            _ => rng.usize(1, 50),
        };
        let mut recs: Vec<Rec> = (0..nshort).map(|i| Rec { id: format!("s{}", i), desc: None, seq: gen_seq(&mut rng, SeqClass::Uniform, 25 + i % 30, true) }).collect();
        recs.insert(long_at, Rec { id: "straggler".into(), desc: None, seq: gen_seq(&mut rng, SeqClass::Uniform, long_len, true) });
        let sc = Scratch::new(ctx, "c10S");
        let inp = sc.write("in.fa", &ser::to_fasta(&recs, &SerOpts::plain()));
        let mode = if idx % 4 == 3 { MinMode::M2s } else { MinMode::S2m };
        let threads = [3usize, 2, 8, 5][(idx % 4) as usize];
        st.case(true, mix(idx) ^ mix(long_len as u64));
        st.class(&format!("{:?} threads={}", mode, threads));
        let res = run_min(mode, w, m, &inp, &sc.path("out.txt"), threads, None);
        judge(&mut st, mode, &res, &recs, w, m, threads, "straggler");
        st.sample(Json::obj().set("w", Json::u(w)).set("m", Json::u(m)).set("short_records", Json::u(nshort)).set("long_record_bases", Json::u(long_len)).set("long_record_at", Json::u(long_at)).set("threads", Json::u(threads)).set("mode", Json::s(format!("{:?}", mode))));
    }
    st
}

/// deterministic lag: the worker that takes one chosen record is held for a few hundred milliseconds at the `took`
/// hook (no lock held) while the others run through all the remaining records — thousands of records of lag on
/// demand, independent of machine load
pub fn lag(ctx: &Ctx) -> Stats {
    let n = ctx.n(4, 24);
    let mut st = Stats::new();
    for idx in 0..n {
        if ctx.expired() {
            st.truncated = true;
            break;
        }
        let mut rng = Rng::keyed(ctx.seed, "c10.lag", idx);
        let m = rng.usize(5, 9);
        let w = m + rng.usize(2, 8);
        let nrec = rng.usize(6000, 11_000);
        let recs: Vec<Rec> = (0..nrec).map(|i| Rec { id: format!("g{}", i), desc: None, seq: gen_seq(&mut rng, SeqClass::Uniform, 25 + i % 40, true) }).collect();
        let sc = Scratch::new(ctx, "c10g");
        let inp = sc.write("in.fa", &ser::to_fasta(&recs, &SerOpts::plain()));
        let mode = if idx % 4 == 3 { MinMode::M2s } else { MinMode::S2m };
        let threads = [2usize, 3, 8, 4][((idx / 2) % 4) as usize];
        let victim = [0u64, rng.range(2, 200), 1, (nrec / 3) as u64][(idx % 4) as usize];
        let (took, exit) = if mode == MinMode::S2m { ("s2m.took", "s2m.exit") } else { ("m2s.took", "m2s.exit") };
        let ctl = Controller::new(Mode::Straggle { record: victim, hold_ms: 350 }, threads, took, exit, vec![]);
        st.case(true, mix(idx) ^ mix(nrec as u64));
        st.class(&format!("{:?} threads={} held record {}", mode, threads, if victim < 2 { victim.to_string() } else { "later".into() }));
        let res = run_min(mode, w, m, &inp, &sc.path("out.txt"), threads, Some(&ctl));
        let held = res.2.as_ref().map_or(false, |t| t.events.iter().any(|e| e.site == took && e.args[0] == victim));
        if !held {
            st.inconclusive("the hook of the chosen record was never reached".into());
        }
        judge(&mut st, mode, &res, &recs, w, m, threads, "lag");
    }
    st
}

pub fn large(ctx: &Ctx) -> Stats {
    let n = ctx.n(4, 30);
    par_cases(ctx, n, |idx, st| {
        let mut rng = Rng::keyed(ctx.seed, "c10.large", idx);
        let m = rng.usize(5, 12);
        let w = if idx % 3 == 2 { 0 } else { m + rng.usize(1, 12) };
        let nrec = rng.usize(12_000, 25_000);
        let recs: Vec<Rec> = (0..nrec)
            .map(|i| {
                let len = if rng.chance(1, 30) { rng.usize(0, m) } else { rng.usize(60, 150) };
                let class = *rng.pick(&[SeqClass::Uniform, SeqClass::IsolatedN, SeqClass::TwoLetter]);
                Rec { id: format!("L{}", i), desc: None, seq: gen_seq(&mut rng, class, len, true) }
            })
            .collect();
        let total: usize = recs.iter().map(|r| r.seq.len()).sum();
        let sc = Scratch::new(ctx, "c10L");
        let inp = sc.write("in.fa", &ser::to_fasta(&recs, &SerOpts::plain()));
        let mode = if idx % 2 == 0 { MinMode::M2s } else { MinMode::S2m };
        let threads = rng.usize(1, 8);
        st.case(true, mix(idx) ^ mix(total as u64));
        st.class(&format!("{:?}", mode));
        let res = run_min(mode, w, m, &inp, &sc.path("out.txt"), threads, None);
        judge(st, mode, &res, &recs, w, m, threads, "large");
        if idx % 3 == 0 {
            st.sample(Json::obj().set("w", Json::u(w)).set("m", Json::u(m)).set("records", Json::u(nrec)).set("total_bases", Json::u(total)).set("mode", Json::s(format!("{:?}", mode))));
        }
    })
}
