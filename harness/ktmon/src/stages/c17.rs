//! C17 — outputs depend only on input and options, not on what is already on disk.
//! Differential oracle: the last run of a history executed alone in a fresh location.

use super::c07::{mem_for_limit, run_counter, CtrCfg};
use super::c08::{run_cov, CovCfg};
use super::c10::{run_min, MinMode};
use super::oligo::*;
use crate::common::*;
use crate::util::*;
use refmodel::gen::{gen_records, Rec};
use refmodel::json::Json;
use refmodel::rng::{hash_bytes, mix, Rng};
use refmodel::ser::{self, SerOpts};

fn sorted_lines(data: &[u8]) -> Vec<Vec<u8>> {
    let mut v: Vec<Vec<u8>> = lines(data).iter().map(|l| l.to_vec()).collect();
    v.sort();
    v
}

fn norm_m2s(data: &[u8]) -> Vec<String> {
    super::c10::normalise_m2s(data)
}

#[derive(Clone, Debug)]
enum Step {
    Oligo { input: usize, cfg: OligoCfg },
    /// keep = merge(false): the chunk files stay next to the merged table
    Counter { input: usize, cfg: CtrCfg, keep: bool },
    Cov { input: usize, cfg: CovCfg },
    Min { input: usize, mode: MinMode, w: usize, m: usize, threads: usize },
    /// plant stale temp files as if an earlier counter run had crashed before its merge
    PlantStale { parts: u64, chunks: u64 },
    /// whole-sequence CGR (input 3 holds a record with a non-nucleotide byte: that run is refused / aborts)
    Cgr { input: usize, s: usize, threads: usize, memory: usize },
    Kcgr { input: usize, k: usize, s: usize, norm: bool, threads: usize, memory: usize },
}

impl Step {
    fn json(&self) -> Json {
        match self {
            Step::Oligo { input, cfg } => Json::obj().set("run", Json::s("oligo")).set("input", Json::u(*input)).set("cfg", cfg.json()),
            Step::Counter { input, cfg, keep } => Json::obj().set("run", Json::s(if *keep { "counter, merge(false): chunk files kept" } else { "counter" })).set("input", Json::u(*input)).set("cfg", cfg.json()),
            Step::Cov { input, cfg } => Json::obj().set("run", Json::s("coverage")).set("input", Json::u(*input)).set("cfg", cfg.json()),
            Step::Min { input, mode, w, m, threads } => Json::obj().set("run", Json::s(format!("min {:?}", mode))).set("input", Json::u(*input)).set("w", Json::u(*w)).set("m", Json::u(*m)).set("threads", Json::u(*threads)),
            Step::PlantStale { parts, chunks } => Json::obj().set("run", Json::s("plant stale temp_kmers files")).set("parts", Json::Int(*parts as i128)).set("chunks", Json::Int(*chunks as i128)),
            Step::Cgr { input, s, threads, memory } => Json::obj().set("run", Json::s("cgr")).set("input", Json::u(*input)).set("S", Json::u(*s)).set("threads", Json::u(*threads)).set("batch_limit", Json::Int(*memory as i128)),
            Step::Kcgr { input, k, s, norm, threads, memory } => Json::obj().set("run", Json::s("cgr -k")).set("input", Json::u(*input)).set("k", Json::u(*k)).set("S", Json::u(*s)).set("norm", Json::Bool(*norm)).set("threads", Json::u(*threads)).set("batch_limit", Json::Int(*memory as i128)),
        }
    }
}

/// result files of a step, normalised for comparison (ordered -> bytes; unordered -> sorted lines)
fn execute(step: &Step, inputs: &[String], loc_file: &str, loc_dir: &str) -> Result<Vec<(String, Vec<u8>)>, String> {
    match step {
        Step::Oligo { input, cfg } => {
            let run = run_oligo_keep(&inputs[*input], loc_file, cfg);
            match run.result {
                Err(p) => Err(format!("panic: {}", p)),
                Ok(Err(e)) => Err(format!("Err({})", e)),
                Ok(Ok(())) => Ok(vec![("vectors".into(), run.output.unwrap_or_default())]),
            }
        }
        Step::Counter { input, cfg, keep } => {
            super::c07::MERGE_KEEPS_CHUNKS.with(|c| c.set(*keep));
            super::c07::KEEP_DIRECTORY_STATE.with(|c| c.set(true));
            let run = run_counter(&inputs[*input], loc_dir, cfg, None);
            super::c07::MERGE_KEEPS_CHUNKS.with(|c| c.set(false));
            super::c07::KEEP_DIRECTORY_STATE.with(|c| c.set(false));
            run.result.map_err(|p| format!("panic: {}", p))?;
            let d = run.counts_raw.unwrap_or_default();
            Ok(vec![("kmers.counts(sorted)".into(), sorted_lines(&d).join(&b"\n"[..]))])
        }
        Step::Cov { input, cfg } => {
            let d = run_cov(&inputs[*input], None, loc_dir, cfg).map_err(|(s, m)| format!("{}: {}", s, m))?;
            let counts = std::fs::read(format!("{}/kmers.counts", loc_dir)).unwrap_or_default();
            Ok(vec![("kmers.vectors".into(), d), ("kmers.counts(sorted)".into(), sorted_lines(&counts).join(&b"\n"[..]))])
        }
        Step::Min { input, mode, w, m, threads } => {
            let r = run_min_keep(*mode, *w, *m, &inputs[*input], loc_file, *threads);
            r.0.map_err(|p| format!("panic: {}", p))?;
            let d = r.1.unwrap_or_default();
            let norm = if *mode == MinMode::M2s { norm_m2s(&d).join("\n").into_bytes() } else { sorted_lines(&d).join(&b"\n"[..]) };
            Ok(vec![("minimiser listing(sorted)".into(), norm)])
        }
        Step::Cgr { input, s, threads, memory } => {
            use composition::cgr::CgrComputer;
            let r = guarded(|| {
                let mut c = CgrComputer::new(inputs[*input].clone(), loc_file.to_string(), *s);
                c.set_threads(*threads);
                c.verif_set_max_memory(*memory);
                c.vectorise()
            });
            match r {
                Ok(Ok(())) => Ok(vec![("cgr".into(), std::fs::read(loc_file).unwrap_or_default())]),
                // a refused run (record with a non-nucleotide byte) is allowed; what it leaves behind must not
                // influence later runs
                Ok(Err(e)) => Ok(vec![("cgr(refused)".into(), e.into_bytes())]),
                Err(_) => Ok(vec![("cgr(refused)".into(), b"panic".to_vec())]),
            }
        }
        Step::Kcgr { input, k, s, norm, threads, memory } => {
            use composition::oligocgr::OligoCgrComputer;
            let r = guarded(|| {
                let mut c = OligoCgrComputer::new(inputs[*input].clone(), loc_file.to_string(), *k, *s);
                c.set_threads(*threads);
                c.set_norm(*norm);
                c.verif_set_max_memory(*memory);
                c.vectorise()
            });
            match r {
                Ok(Ok(())) => Ok(vec![("kcgr".into(), std::fs::read(loc_file).unwrap_or_default())]),
                Ok(Err(e)) => Err(format!("Err({})", e)),
                Err(p) => Err(format!("panic: {}", p)),
            }
        }
        Step::PlantStale { parts, chunks } => {
            let _ = std::fs::create_dir_all(loc_dir);
            for p in 0..*parts {
                for c in 0..*chunks {
                    let _ = std::fs::write(format!("{}/temp_kmers.part_{}_chunk_{}", loc_dir, p, c), format!("{}\t{}\n{}\t7\n", p, 1000 + c, p + parts));
                }
            }
            Ok(vec![])
        }
    }
}

/// like oligo::run_oligo but WITHOUT deleting a pre-existing output (that is the point here)
fn run_oligo_keep(inp: &str, outp: &str, cfg: &OligoCfg) -> OligoRun {
    use composition::oligo::OligoComputer;
    let result = guarded(|| {
        let mut com = OligoComputer::new(inp.to_string(), outp.to_string(), cfg.k);
        com.set_threads(cfg.threads);
        com.set_norm(cfg.norm);
        com.set_delim(cfg.delim.clone());
        com.set_max_memory(cfg.memory);
        com.set_header(cfg.header);
        match cfg.writer {
            Writer::Public => com.vectorise(),
            Writer::Mmap => com.verif_vectorise_mmap(),
            Writer::Batch => com.verif_vectorise_batch(),
        }
    });
    OligoRun { result, output: std::fs::read(outp).ok(), trace: None }
}

fn run_min_keep(mode: MinMode, w: usize, m: usize, inp: &str, outp: &str, threads: usize) -> (Result<(), String>, Option<Vec<u8>>) {
    let r = guarded(|| match mode {
        MinMode::S2m => misc::minimisers::seq_to_min(w, m, inp, outp, threads),
        MinMode::M2s => misc::minimisers::bin_sequences(w, m, inp, outp, threads),
    });
    (r, std::fs::read(outp).ok())
}

fn gen_oligo_cfg(rng: &mut Rng) -> OligoCfg {
    let norm = rng.chance(2, 3);
    OligoCfg {
        k: rng.usize(1, 5),
        threads: rng.usize(1, 8),
        memory: *rng.pick(&[1usize, 200, 4 << 30]),
        header: rng.chance(1, 2),
        delim: rng.pick(&[" ", ",", "\t"]).to_string(),
        norm,
        writer: if norm { *rng.pick(&[Writer::Mmap, Writer::Batch, Writer::Public]) } else { Writer::Batch },
    }
}

fn gen_ctr_cfg(rng: &mut Rng, total: u64, k: usize) -> CtrCfg {
    let limit = match rng.below(3) {
        0 => total * 4,
        1 => total / rng.range(2, 6).max(1),
        _ => total / rng.range(6, 30).max(1),
    };
    CtrCfg { k, threads: rng.usize(1, 12), mem_gb: mem_for_limit(limit), acgt: rng.chance(1, 4) }
}

fn gen_history(rng: &mut Rng, totals: &[u64]) -> Vec<Step> {
    let family = rng.below(5);
    let len = rng.usize(2, 3);
    let mut steps = Vec::new();
    let k = rng.usize(2, 12);
    match family {
        0 => {
            for _ in 0..len {
                steps.push(Step::Oligo { input: rng.usize(0, totals.len() - 1), cfg: gen_oligo_cfg(rng) });
            }
        }
        1 => {
            if rng.chance(1, 2) {
                steps.push(Step::PlantStale { parts: rng.range(1, 40), chunks: rng.range(1, 12) });
            }
            for _ in 0..len {
                let input = rng.usize(0, totals.len() - 1);
                let kk = if rng.chance(1, 2) { k } else { rng.usize(2, 31) };
                let mut cfg = gen_ctr_cfg(rng, totals[input].max(1), kk);
                // one run in three keeps its chunk files (merge(false)); half of those are the smallest possible
                // layout: one worker, one chunk
                let keep = rng.chance(1, 3);
                if keep && rng.chance(1, 2) {
                    cfg.threads = 1;
                    cfg.mem_gb = 6.0;
                }
                steps.push(Step::Counter { input, cfg, keep });
            }
        }
        2 => {
            // coverage after counter (same directory), or coverage twice
            if rng.chance(1, 3) {
                steps.push(Step::PlantStale { parts: rng.range(1, 30), chunks: rng.range(1, 8) });
            }
            for j in 0..len {
                let input = rng.usize(0, totals.len() - 1);
                if j + 1 < len && rng.chance(1, 2) {
                    let kk = rng.usize(2, 20);
                    steps.push(Step::Counter { input, cfg: gen_ctr_cfg(rng, totals[input].max(1), kk), keep: rng.chance(1, 4) });
                } else {
                    steps.push(Step::Cov {
                        input,
                        cfg: CovCfg { k: rng.usize(2, 15), bin_size: rng.usize(1, 6), bin_count: rng.usize(1, 8), norm: rng.chance(1, 2), threads: rng.usize(1, 8), mem_gb: *rng.pick(&[0.5f64, 6.0]), delim: " ".into(), alt: false },
                    });
                }
            }
        }
        3 => {
            // CGR histories: nucleotide-only inputs are 4 and 5; input 3 has a foreign byte in a late record, so
            // that run is refused after earlier batches may have been written; the last run is never a refused one
            for j in 0..len {
                let last = j + 1 == len;
                let input = if !last && rng.chance(1, 2) { 3 } else { rng.usize(4, 5) };
                let memory = *rng.pick(&[1usize, 300, 5000, 4 << 30]);
                if rng.chance(1, 2) {
                    steps.push(Step::Cgr { input, s: rng.usize(1, 64), threads: rng.usize(1, 8), memory });
                } else {
                    steps.push(Step::Kcgr { input: if input == 3 { 4 } else { input }, k: rng.usize(1, 4), s: rng.usize(1, 64), norm: rng.chance(1, 2), threads: rng.usize(1, 8), memory });
                }
            }
        }
        _ => {
            for _ in 0..len {
                let m = rng.usize(2, 12);
                steps.push(Step::Min { input: rng.usize(0, totals.len() - 1), mode: if rng.chance(1, 2) { MinMode::S2m } else { MinMode::M2s }, w: if rng.chance(1, 3) { 0 } else { m + rng.usize(1, 20) }, m, threads: rng.usize(1, 8) });
            }
        }
    }
    steps
}

/// library-level histories
pub fn lib(ctx: &Ctx) -> Stats {
    let n = ctx.n(150, 4000);
    par_cases(ctx, n, |idx, st| {
        let mut rng = Rng::keyed(ctx.seed, "c17.lib", idx);
        let sc = Scratch::new(ctx, "c17");
        // a longer and a shorter input (plus a third), so that re-runs shrink and grow the outputs
        // (one history in four has a record-free file as its short input: a run that has nothing to write must still
        // replace what an earlier run left)
        let short = if rng.chance(1, 4) { 0 } else { rng.usize(1, 6) };
        let sizes = [rng.usize(20, 60), short, rng.usize(5, 25)];
        let mut inputs = Vec::new();
        let mut totals = Vec::new();
        let mut all: Vec<Vec<Rec>> = Vec::new();
        for (i, &nrec) in sizes.iter().enumerate() {
            let recs = gen_records(&mut rng, nrec, 6, Some(15), 200, 12);
            totals.push(recs.iter().map(|r| r.seq.len() as u64).sum());
            inputs.push(sc.write(&format!("in{}.fa", i), &ser::to_fasta(&recs, &SerOpts::plain())));
            all.push(recs);
        }
        // inputs for the CGR histories: 3 = nucleotide records with one foreign byte late in the file, 4 and 5 = nucleotide only
        for (i, nrec) in [(3usize, rng.usize(8, 30)), (4, rng.usize(10, 40)), (5, rng.usize(1, 6))] {
            let mut recs: Vec<Rec> = (0..nrec)
                .map(|j| Rec { id: format!("n{}_{}", i, j), desc: None, seq: (0..rng.usize(1, 120)).map(|_| *rng.pick(b"ACGTacgu")).collect() })
                .collect();
            if i == 3 {
                let at = recs.len() * 2 / 3;
                recs[at].seq.push(b'N');
            }
            totals.push(recs.iter().map(|r| r.seq.len() as u64).sum());
            inputs.push(sc.write(&format!("in{}.fa", i), &ser::to_fasta(&recs, &SerOpts::plain())));
            all.push(recs);
        }
        let hist = gen_history(&mut rng, &totals[..3]);
        let shared_file = sc.path("shared.out");
        let shared_dir = sc.path("shared.dir");
        let fresh_file = sc.path("fresh.out");
        let fresh_dir = sc.path("fresh.dir");
        let case = || {
            Json::obj()
                .set("history", Json::Arr(hist.iter().map(|s| s.json()).collect()))
                .set("inputs", Json::Arr(all.iter().map(|r| Json::obj().set("n_records", Json::u(r.len())).set("records", recs_json(r))).collect()))
        };
        st.case(hist.len() >= 2, mix(idx) ^ hash_bytes(format!("{:?}", hist).as_bytes()));
        st.class(match hist.iter().rev().find(|s| !matches!(s, Step::PlantStale { .. })).unwrap() {
            Step::Oligo { .. } => "last=oligo",
            Step::Counter { .. } => "last=counter",
            Step::Cov { .. } => "last=coverage",
            Step::Min { .. } => "last=min",
            Step::PlantStale { .. } => "last=plant",
            Step::Cgr { .. } => "last=cgr",
            Step::Kcgr { .. } => "last=cgr -k",
        });
        if hist.iter().any(|s| matches!(s, Step::PlantStale { .. })) {
            st.class("stale-temp-files-planted");
        }
        let mut last = None;
        for s in &hist {
            match execute(s, &inputs, &shared_file, &shared_dir) {
                Ok(r) => last = Some(r),
                Err(e) => {
                    st.violate("history.run_failed", format!("a run of the history failed: {}", e), case());
                    return;
                }
            }
        }
        let fresh = match execute(hist.last().unwrap(), &inputs, &fresh_file, &fresh_dir) {
            Ok(r) => r,
            Err(e) => {
                st.violate("history.fresh_failed", format!("the last run alone failed: {}", e), case());
                return;
            }
        };
        let last = last.unwrap();
        for ((name, a), (_, b)) in last.iter().zip(fresh.iter()) {
            if a != b {
                let which = match hist.last().unwrap() {
                    Step::Oligo { cfg, .. } => format!("oligo.{:?}", cfg.writer),
                    Step::Counter { .. } => "counter".into(),
                    Step::Cov { .. } => "coverage".into(),
                    Step::Min { mode, .. } => format!("min.{:?}", mode),
                    Step::Cgr { .. } => "cgr".into(),
                    Step::Kcgr { .. } => "kcgr".into(),
                    _ => "other".into(),
                };
                st.violate(
                    &format!("history.depends_on_disk:{}", which),
                    format!("{} after the history ({} bytes) differs from the same run in a fresh location ({} bytes)", name, a.len(), b.len()),
                    case(),
                );
                return;
            }
        }
        // same command twice in the fresh location
        match execute(hist.last().unwrap(), &inputs, &fresh_file, &fresh_dir) {
            Ok(again) => {
                if again.iter().zip(fresh.iter()).any(|(x, y)| x.1 != y.1) {
                    st.violate("history.not_idempotent", "running the same command twice gives different results".into(), case());
                    return;
                }
            }
            Err(e) => {
                st.violate("history.rerun_failed", format!("re-running the same command failed: {}", e), case());
                return;
            }
        }
        if idx % 53 == 0 {
            st.sample(Json::obj().set("history", Json::Arr(hist.iter().map(|s| s.json()).collect())));
        }
    })
}

/// CLI-level histories on the real binary
pub fn cli(ctx: &Ctx) -> Stats {
    let n = ctx.n(25, 600);
    par_cases(ctx, n, |idx, st| {
        let mut rng = Rng::keyed(ctx.seed, "c17.cli", idx);
        let sc = Scratch::new(ctx, "c17c");
        let nl = rng.usize(15, 40);
        let long = gen_records(&mut rng, nl, 10, Some(15), 200, 12);
        // one case in four: the short input holds no record at all
        let ns = if rng.chance(1, 4) { 0 } else { rng.usize(1, 5) };
        let short = gen_records(&mut rng, ns, 10, Some(15), 60, 12);
        let inp_long = sc.write("long.fa", &ser::to_fasta(&long, &SerOpts::plain()));
        let inp_short = sc.write("short.fa", &ser::to_fasta(&short, &SerOpts::plain()));
        let family = idx % 4;
        // (argv without -o, output is a directory, result file inside, ordered?)
        let mk = |rng: &mut Rng, inp: &str| -> (Vec<String>, bool, &'static str, bool) {
            match family {
                0 => {
                    let mut a = sv(&["comp", "oligo", "-i", inp, "-k", &rng.usize(3, 5).to_string(), "-t", &rng.usize(1, 8).to_string()]);
                    if rng.chance(1, 2) {
                        a.push("-c".into());
                    }
                    if rng.chance(1, 2) {
                        a.push("-H".into());
                    }
                    (a, false, "", true)
                }
                1 => (sv(&["ctr", "-i", inp, "-k", &rng.usize(10, 14).to_string(), "-t", &rng.usize(1, 8).to_string()]), true, "kmers.counts", false),
                2 => (sv(&["cov", "-i", inp, "-k", &rng.usize(7, 10).to_string(), "-s", "5", "-c", &rng.usize(5, 9).to_string(), "-t", &rng.usize(1, 8).to_string()]), true, "kmers.vectors", true),
                _ => {
                    let m = rng.usize(7, 10);
                    (sv(&["min", "-i", inp, "-m", &m.to_string(), "-w", &(m + rng.usize(1, 9)).to_string(), "-p", "s2m", "-t", &rng.usize(1, 8).to_string()]), false, "", false)
                }
            }
        };
        // one case in five: both runs read the *same input path*, whose content is replaced in between by a file with an
        // older modification time (mv / cp -p / rsync -t / a checkout do that): anything cached beside the input or keyed
        // on (path, mtime) must not leak into the second result.  The fresh run reads a pristine copy elsewhere.
        let reuse_input_path = idx % 5 == 2;
        let inp_reused = sc.path("reads.fa");
        let first = mk(&mut rng, if reuse_input_path { &inp_reused } else if idx % 8 < 4 { &inp_long } else { &inp_short });
        let second = mk(&mut rng, if reuse_input_path { &inp_reused } else if idx % 8 < 4 { &inp_short } else { &inp_long });
        // (same options in both runs of a reuse case: the strongest setting for anything keyed on the input path)
        let mut first = first;
        if reuse_input_path && family == 0 && (idx / 20) % 2 == 0 {
            // every other reuse case of the oligo family takes the normalised (memory-mapped, pre-sized) path
            first.0.retain(|a| a != "-c");
        }
        let first = first;
        let second = if reuse_input_path { first.clone() } else { second };
        let second_fresh = if reuse_input_path { mk_same(&second.0, &inp_reused, if idx % 8 < 4 { &inp_short } else { &inp_long }) } else { second.0.clone() };
        if reuse_input_path {
            let _ = std::fs::copy(if idx % 8 < 4 { &inp_long } else { &inp_short }, &inp_reused);
            st.class("input path reused with an older mtime");
        }
        let shared = sc.path("shared");
        let fresh = sc.path("fresh");
        st.case(true, mix(idx) ^ hash_bytes(second.0.join(" ").as_bytes()));
        st.class(["comp oligo", "ctr", "cov", "min"][family as usize]);
        let case = || Json::obj().set("first", Json::s(first.0.join(" "))).set("second", Json::s(second.0.join(" "))).set("long_records", Json::u(long.len())).set("short_records", Json::u(short.len()));
        let run = |st: &mut Stats, a: &[String], out: &str| -> Option<bool> {
            let mut args = a.to_vec();
            args.push("-o".into());
            args.push(out.to_string());
            let r = run_cli(ctx, &args, None, &CliLimits::default());
            if r.timed_out && !r.cpu_exceeded && !r.stalled {
                st.inconclusive(format!("CLI watchdog: {}", r.describe()));
                return None;
            }
            Some(r.ok())
        };
        if family == 1 && idx % 3 == 0 {
            // stale temp files from a crashed earlier run
            let _ = std::fs::create_dir_all(&shared);
            for p in 0..20 {
                for c in 0..5 {
                    let _ = std::fs::write(format!("{}/temp_kmers.part_{}_chunk_{}", shared, p, c), format!("{}\t99\n", p));
                }
            }
            st.class("stale-temp-files-planted");
        }
        for (step, (a, out)) in [(&first.0, &shared), (&second.0, &shared), (&second_fresh, &fresh)].into_iter().enumerate() {
            if step == 1 && reuse_input_path {
                // replace the content, keep the path, make the file look older than anything written so far
                let _ = std::fs::copy(if idx % 8 < 4 { &inp_short } else { &inp_long }, &inp_reused);
                if let Ok(f) = std::fs::OpenOptions::new().write(true).open(&inp_reused) {
                    let _ = f.set_modified(std::time::SystemTime::UNIX_EPOCH + std::time::Duration::from_secs(1_000_000_000));
                }
            }
            match run(st, a, out) {
                None => return,
                Some(false) => {
                    st.violate("history.cli_run_failed", format!("{} failed", a.join(" ")), case());
                    return;
                }
                Some(true) => {}
            }
        }
        if reuse_input_path {
            // whatever the runs left beside the input must not survive into the next case of this thread
            if let Some(dir) = std::path::Path::new(&inp_reused).parent() {
                if let Ok(rd) = std::fs::read_dir(dir) {
                    for e in rd.flatten() {
                        let n = e.file_name().to_string_lossy().to_string();
                        if n.starts_with("reads.fa") {
                            let _ = std::fs::remove_file(e.path());
                        }
                    }
                }
            }
        }
        let read = |base: &str| -> Vec<u8> {
            let p = if second.1 { format!("{}/{}", base, second.2) } else { base.to_string() };
            std::fs::read(p).unwrap_or_default()
        };
        let (a, b) = (read(&shared), read(&fresh));
        let same = if second.3 { a == b } else { sorted_lines(&a) == sorted_lines(&b) };
        if !same {
            st.violate(
                &format!("history.depends_on_disk:cli.{}", ["oligo", "ctr", "cov", "min"][family as usize]),
                format!("result after [{}] then [{}] into one location ({} bytes) differs from the second command alone ({} bytes)", first.0.join(" "), second.0.join(" "), a.len(), b.len()),
                case(),
            );
        } else if idx % 11 == 0 {
            st.sample(case());
        }
    })
}

fn mk_same(argv: &[String], from: &str, to: &str) -> Vec<String> {
    argv.iter().map(|a| if a == from { to.to_string() } else { a.clone() }).collect()
}

/// The earlier run did not finish: it is killed (SIGKILL) a few milliseconds to a few hundred milliseconds after
/// start, whatever it had created by then stays behind (partly written outputs, temporary / part / chunk files of
/// any name, with more workers than the next run uses).  The next, different run into the same location must
/// produce what a fresh location receives.
pub fn killed(ctx: &Ctx) -> Stats {
    let n = ctx.n(48, 600);
    let not_finished = std::sync::atomic::AtomicU64::new(0);
    let mut st = par_cases(ctx, n, |idx, st| {
        let mut rng = Rng::keyed(ctx.seed, "c17.killed", idx);
        let sc = Scratch::new(ctx, "c17k");
        let family = idx % 8;
        // the interrupted run works on a big input with many workers
        let nbig = rng.usize(6000, 14000);
        let big: Vec<Rec> = (0..nbig)
            .map(|i| Rec { id: format!("k{}", i), desc: None, seq: (0..rng.usize(60, 260)).map(|_| *rng.pick(b"ACGT")).collect() })
            .collect();
        let nsmall = if rng.chance(1, 5) { 0 } else { rng.usize(1, 40) };
        let small: Vec<Rec> = (0..nsmall)
            .map(|i| Rec { id: format!("s{}", i), desc: None, seq: (0..rng.usize(0, 120)).map(|_| *rng.pick(b"ACGTacgu")).collect() })
            .collect();
        let inp_big = sc.write("big.fa", &ser::to_fasta(&big, &SerOpts::plain()));
        let inp_small = sc.write("small.fa", &ser::to_fasta(&small, &SerOpts::plain()));
        // (argv without -o, output is a directory, result file inside, ordered output)
        let mk = |rng: &mut Rng, inp: &str, threads: usize| -> (Vec<String>, bool, &'static str, bool) {
            let t = threads.to_string();
            match family {
                0 => (sv(&["comp", "oligo", "-i", inp, "-k", &rng.usize(3, 6).to_string(), "-t", &t]), false, "", true),
                1 => (sv(&["comp", "oligo", "-i", inp, "-k", &rng.usize(3, 6).to_string(), "-c", "-H", "-t", &t]), false, "", true),
                2 => (sv(&["comp", "cgr", "-i", inp, "-v", "64", "-t", &t]), false, "", true),
                3 => (sv(&["comp", "cgr", "-i", inp, "-k", &rng.usize(3, 5).to_string(), "-v", "64", "-t", &t]), false, "", true),
                4 => (sv(&["ctr", "-i", inp, "-k", &rng.usize(10, 16).to_string(), "-t", &t]), true, "kmers.counts", false),
                5 => (sv(&["cov", "-i", inp, "-k", &rng.usize(7, 11).to_string(), "-s", "5", "-c", &rng.usize(5, 9).to_string(), "-t", &t]), true, "kmers.vectors", true),
                6 => {
                    let m = rng.usize(7, 10);
                    (sv(&["min", "-i", inp, "-m", &m.to_string(), "-w", &(m + rng.usize(1, 9)).to_string(), "-p", "s2m", "-t", &t]), false, "", false)
                }
                _ => {
                    let m = rng.usize(7, 10);
                    (sv(&["min", "-i", inp, "-m", &m.to_string(), "-w", &(m + rng.usize(1, 9)).to_string(), "-p", "m2s", "-t", &t]), false, "", false)
                }
            }
        };
        let (t1, t2) = (rng.usize(8, 16), rng.usize(1, 3));
        let first = mk(&mut rng, &inp_big, t1);
        let second = mk(&mut rng, &inp_small, t2);
        let shared = sc.path("shared");
        let fresh = sc.path("fresh");
        let fam_name = ["comp oligo", "comp oligo -c", "comp cgr", "comp cgr -k", "ctr", "cov", "min s2m", "min m2s"][family as usize];
        st.case(true, mix(idx) ^ hash_bytes(second.0.join(" ").as_bytes()));
        st.class(fam_name);
        let delay_ms = *rng.pick(&[2u64, 5, 10, 20, 40, 80, 150, 300]);
        let case = || Json::obj().set("killed_after_ms", Json::Int(delay_ms as i128)).set("or_file_size_limit_on_every_second_block_of_8_cases", Json::Bool((idx / 8) % 2 == 1)).set("first", Json::s(first.0.join(" "))).set("second", Json::s(second.0.join(" "))).set("big_records", Json::u(big.len())).set("small_records", recs_json(&small));
        // the interrupted run
        {
            let mut args = first.0.clone();
            args.push("-o".into());
            args.push(shared.clone());
            let mut cmd = std::process::Command::new(ctx.cli_path());
            cmd.args(&args).stdin(std::process::Stdio::null()).stdout(std::process::Stdio::null()).stderr(std::process::Stdio::null());
            // second way of not finishing: the earlier run hits a file-size limit (quota / full disk) in the middle of
            // writing — SIGXFSZ or a write error after exactly `fsize` bytes of some output or temporary file
            let fsize_limit: Option<u64> = if (idx / 8) % 2 == 1 { Some(*rng.pick(&[4096u64, 20_000, 65_536, 300_000, 1 << 20])) } else { None };
            if let Some(lim) = fsize_limit {
                use std::os::unix::process::CommandExt;
                unsafe {
                    cmd.pre_exec(move || {
                        let rl = libc::rlimit { rlim_cur: lim, rlim_max: lim };
                        libc::setrlimit(libc::RLIMIT_FSIZE, &rl);
                        Ok(())
                    });
                }
                st.class("earlier run under a file-size limit");
            }
            let child = cmd.spawn();
            match child {
                Ok(mut ch) => {
                    if fsize_limit.is_some() {
                        // let it run into the limit (or finish, if its output is small); a watchdog bounds the wait
                        let t0 = std::time::Instant::now();
                        while matches!(ch.try_wait(), Ok(None)) && t0.elapsed() < std::time::Duration::from_secs(20) {
                            std::thread::sleep(std::time::Duration::from_millis(5));
                        }
                    } else {
                        std::thread::sleep(std::time::Duration::from_millis(delay_ms));
                    }
                    let running = matches!(ch.try_wait(), Ok(None));
                    let _ = ch.kill();
                    let status = ch.wait().ok();
                    let died = status.map_or(false, |s| !s.success());
                    let running = running || (fsize_limit.is_some() && died);
                    if running {
                        not_finished.fetch_add(1, std::sync::atomic::Ordering::Relaxed);
                        st.class("earlier run killed before it finished");
                    } else {
                        st.class("earlier run had already finished");
                    }
                }
                Err(e) => {
                    st.inconclusive(format!("cannot start the CLI: {}", e));
                    return;
                }
            }
        }
        let run = |st: &mut Stats, a: &[String], out: &str| -> Option<bool> {
            let mut args = a.to_vec();
            args.push("-o".into());
            args.push(out.to_string());
            let r = run_cli(ctx, &args, None, &CliLimits::default());
            if r.timed_out && !r.cpu_exceeded && !r.stalled {
                st.inconclusive(format!("CLI watchdog: {}", r.describe()));
                return None;
            }
            Some(r.ok())
        };
        for (a, out) in [(&second.0, &shared), (&second.0, &fresh)] {
            match run(st, a, out) {
                None => return,
                Some(false) => {
                    st.violate(&format!("history.cli_run_failed_after_kill:{}", fam_name), format!("{} failed (into {})", a.join(" "), if out == &shared { "the location of the killed run" } else { "a fresh location" }), case());
                    return;
                }
                Some(true) => {}
            }
        }
        let read = |base: &str| -> Vec<u8> {
            let p = if second.1 { format!("{}/{}", base, second.2) } else { base.to_string() };
            std::fs::read(p).unwrap_or_default()
        };
        let (a, b) = (read(&shared), read(&fresh));
        // m2s: lines and the items inside a line are unordered (compared as multisets)
        let same = if second.3 { a == b } else if family == 7 { super::c10::normalise_m2s(&a) == super::c10::normalise_m2s(&b) } else { sorted_lines(&a) == sorted_lines(&b) };
        if !same {
            st.violate(
                &format!("history.depends_on_killed_run:cli.{}", fam_name),
                format!("after [{}] was killed {} ms into its run, [{}] into the same location gives {} bytes; a fresh location gives {} bytes", first.0.join(" "), delay_ms, second.0.join(" "), a.len(), b.len()),
                case(),
            );
        } else if idx % 17 == 0 {
            st.sample(case());
        }
        // clean the shared location: the scratch paths are reused by the next case of this thread
        let _ = std::fs::remove_dir_all(&shared);
        let _ = std::fs::remove_file(&shared);
    });
    st.set_extra("earlier_runs_killed_before_they_finished", Json::Int(not_finished.load(std::sync::atomic::Ordering::Relaxed) as i128));
    st
}

/// The interrupted earlier run worked on the *same input file* as the run that is judged (often gzip-compressed), and
/// the reference result is taken BEFORE it, with a temporary directory of its own.  Whatever an interrupted run leaves
/// behind — in the output location, next to the input, in the temporary directory — must not change what the same
/// command delivers afterwards, neither into the location of the killed run nor into a new one.
pub fn sameinput(ctx: &Ctx) -> Stats {
    let n = ctx.n(24, 240);
    let not_finished = std::sync::atomic::AtomicU64::new(0);
    let mut st = par_cases(ctx, n, |idx, st| {
        let mut rng = Rng::keyed(ctx.seed, "c17.sameinput", idx);
        let sc = Scratch::new(ctx, "c17s");
        let family = idx % 8;
        let nbig = rng.usize(6000, 14000);
        let big: Vec<Rec> = (0..nbig)
            .map(|i| Rec { id: format!("k{}", i), desc: None, seq: (0..rng.usize(60, 260)).map(|_| *rng.pick(b"ACGT")).collect() })
            .collect();
        let text = ser::to_fasta(&big, &SerOpts::plain());
        let container = rng.below(3);
        let inp = match container {
            0 => sc.write("big.fa", &text),
            1 => sc.write("big.fa.gz", &ser::gzip(&text, &ser::GzLayout::Multi(3), &mut rng)),
            _ => sc.write("big.fasta.gz", &ser::gzip(&text, &ser::GzLayout::Single(6), &mut rng)),
        };
        st.class(["plain input", "multi-member gzip input", "gzip input"][container as usize]);
        let mk = |rng: &mut Rng, threads: usize| -> (Vec<String>, bool, &'static str, bool) {
            let t = threads.to_string();
            let i = inp.as_str();
            match family {
                0 => (sv(&["comp", "oligo", "-i", i, "-k", &rng.usize(3, 6).to_string(), "-t", &t]), false, "", true),
                1 => (sv(&["comp", "oligo", "-i", i, "-k", &rng.usize(3, 6).to_string(), "-c", "-H", "-t", &t]), false, "", true),
                2 => (sv(&["comp", "cgr", "-i", i, "-v", "64", "-t", &t]), false, "", true),
                3 => (sv(&["comp", "cgr", "-i", i, "-k", &rng.usize(3, 5).to_string(), "-v", "64", "-t", &t]), false, "", true),
                4 => (sv(&["ctr", "-i", i, "-k", &rng.usize(10, 16).to_string(), "-t", &t]), true, "kmers.counts", false),
                5 => (sv(&["cov", "-i", i, "-k", &rng.usize(7, 11).to_string(), "-s", "5", "-c", &rng.usize(5, 9).to_string(), "-t", &t]), true, "kmers.vectors", true),
                6 => {
                    let m = rng.usize(7, 10);
                    (sv(&["min", "-i", i, "-m", &m.to_string(), "-w", &(m + rng.usize(1, 9)).to_string(), "-p", "s2m", "-t", &t]), false, "", false)
                }
                _ => {
                    let m = rng.usize(7, 10);
                    (sv(&["min", "-i", i, "-m", &m.to_string(), "-w", &(m + rng.usize(1, 9)).to_string(), "-p", "m2s", "-t", &t]), false, "", false)
                }
            }
        };
        let t1 = rng.usize(8, 16);
        let first = mk(&mut rng, t1);
        // the judged command: in half of the cases exactly the interrupted one (a plain "run it again")
        let t2 = rng.usize(1, 8);
        let second = if rng.chance(1, 2) { first.clone() } else { mk(&mut rng, t2) };
        let fam_name = ["comp oligo", "comp oligo -c", "comp cgr", "comp cgr -k", "ctr", "cov", "min s2m", "min m2s"][family as usize];
        st.case(true, mix(idx) ^ hash_bytes(second.0.join(" ").as_bytes()));
        st.class(fam_name);
        let (reference, shared, elsewhere) = (sc.path("reference"), sc.path("shared"), sc.path("elsewhere"));
        let own_tmp = sc.subdir("tmp-of-reference-run");
        let delay_ms = *rng.pick(&[2u64, 5, 10, 20, 40, 80, 150, 300]);
        let fsize_limit: Option<u64> = if (idx / 8) % 2 == 1 { Some(*rng.pick(&[4096u64, 20_000, 65_536, 300_000, 1 << 20])) } else { None };
        let case = || {
            Json::obj()
                .set("input", Json::s(inp.clone()))
                .set("records", Json::u(nbig))
                .set("killed_after_ms", Json::Int(delay_ms as i128))
                .set("file_size_limit_of_interrupted_run", fsize_limit.map_or(Json::Null, |l| Json::Int(l as i128)))
                .set("interrupted", Json::s(first.0.join(" ")))
                .set("judged", Json::s(second.0.join(" ")))
        };
        let run = |st: &mut Stats, out: &str, env: &[(&str, &str)]| -> Option<bool> {
            let mut args = second.0.clone();
            args.push("-o".into());
            args.push(out.to_string());
            let r = run_cli_env(ctx, &args, None, &CliLimits::default(), env, None);
            if r.timed_out && !r.cpu_exceeded && !r.stalled {
                st.inconclusive(format!("CLI watchdog: {}", r.describe()));
                return None;
            }
            Some(r.ok())
        };
        // 0. the reference: the judged command alone, before anything was interrupted, temporary directory of its own
        match run(st, &reference, &[("TMPDIR", own_tmp.as_str())]) {
            None => return,
            Some(false) => {
                st.inconclusive(format!("reference run failed: {}", second.0.join(" ")));
                return;
            }
            Some(true) => {}
        }
        // 1. the interrupted run on the same input
        {
            let mut args = first.0.clone();
            args.push("-o".into());
            args.push(shared.clone());
            let mut cmd = std::process::Command::new(ctx.cli_path());
            cmd.args(&args).stdin(std::process::Stdio::null()).stdout(std::process::Stdio::null()).stderr(std::process::Stdio::null());
            if let Some(lim) = fsize_limit {
                use std::os::unix::process::CommandExt;
                unsafe {
                    cmd.pre_exec(move || {
                        let rl = libc::rlimit { rlim_cur: lim, rlim_max: lim };
                        libc::setrlimit(libc::RLIMIT_FSIZE, &rl);
                        Ok(())
                    });
                }
                st.class("earlier run under a file-size limit");
            }
            match cmd.spawn() {
                Ok(mut ch) => {
                    if fsize_limit.is_some() {
                        let t0 = std::time::Instant::now();
                        while matches!(ch.try_wait(), Ok(None)) && t0.elapsed() < std::time::Duration::from_secs(20) {
                            std::thread::sleep(std::time::Duration::from_millis(5));
                        }
                    } else {
                        std::thread::sleep(std::time::Duration::from_millis(delay_ms));
                    }
                    let running = matches!(ch.try_wait(), Ok(None));
                    let _ = ch.kill();
                    let died = ch.wait().ok().map_or(false, |s| !s.success());
                    if running || (fsize_limit.is_some() && died) {
                        not_finished.fetch_add(1, std::sync::atomic::Ordering::Relaxed);
                        st.class("earlier run killed before it finished");
                    } else {
                        st.class("earlier run had already finished");
                    }
                }
                Err(e) => {
                    st.inconclusive(format!("cannot start the CLI: {}", e));
                    return;
                }
            }
        }
        // 2. the judged command into the location of the interrupted run and into a new one
        for (out, what) in [(&shared, "the location of the interrupted run"), (&elsewhere, "a new location")] {
            match run(st, out, &[]) {
                None => return,
                Some(false) => {
                    st.violate(&format!("history.cli_run_failed_after_kill:{}", fam_name), format!("{} failed (into {}) although it succeeded before [{}] was interrupted", second.0.join(" "), what, first.0.join(" ")), case());
                    return;
                }
                Some(true) => {}
            }
        }
        let read = |base: &str| -> Vec<u8> {
            let p = if second.1 { format!("{}/{}", base, second.2) } else { base.to_string() };
            std::fs::read(p).unwrap_or_default()
        };
        let same = |a: &[u8], b: &[u8]| -> bool {
            if second.3 {
                a == b
            } else if family == 7 {
                super::c10::normalise_m2s(a) == super::c10::normalise_m2s(b)
            } else {
                sorted_lines(a) == sorted_lines(b)
            }
        };
        let r = read(&reference);
        for (out, sig) in [(&shared, "history.depends_on_killed_run"), (&elsewhere, "history.depends_on_killed_run_elsewhere")] {
            let a = read(out);
            if !same(&a, &r) {
                st.violate(
                    &format!("{}:cli.{}", sig, fam_name),
                    format!("[{}] gave {} bytes before [{}] was interrupted on the same input ({} ms / limit {:?}) and {} bytes afterwards", second.0.join(" "), r.len(), first.0.join(" "), delay_ms, fsize_limit, a.len()),
                    case(),
                );
                break;
            }
        }
        if idx % 11 == 0 {
            st.sample(case());
        }
        for p in [&shared, &elsewhere, &reference] {
            let _ = std::fs::remove_dir_all(p);
            let _ = std::fs::remove_file(p);
        }
    });
    st.set_extra("earlier_runs_killed_before_they_finished", Json::Int(not_finished.load(std::sync::atomic::Ordering::Relaxed) as i128));
    st
}

/// The earlier run used an *almost identical* input: the same records except one in the middle (same id, same length,
/// other bases) — the situation after a record was corrected and the command repeated.  Outputs have the same size and
/// the same beginning and end, so anything that decides "nothing changed" from size, time stamps or a sample of the
/// content keeps the stale middle.
pub fn nearby(ctx: &Ctx) -> Stats {
    let n = ctx.n(16, 160);
    par_cases(ctx, n, |idx, st| {
        let mut rng = Rng::keyed(ctx.seed, "c17.nearby", idx);
        let sc = Scratch::new(ctx, "c17n");
        let family = idx % 8;
        let nrec = rng.usize(900, 1500);
        let a: Vec<Rec> = (0..nrec).map(|i| Rec { id: format!("n{}", i), desc: None, seq: (0..rng.usize(40, 90)).map(|_| *rng.pick(b"ACGT")).collect() }).collect();
        let mut b = a.clone();
        let mid = nrec / 2 + rng.usize(0, 20);
        let l = b[mid].seq.len();
        b[mid].seq = (0..l).map(|_| *rng.pick(b"ACGT")).collect();
        if b[mid].seq == a[mid].seq {
            b[mid].seq[0] = if a[mid].seq[0] == b'A' { b'C' } else { b'A' };
        }
        let inp = sc.path("reads.fa");
        let inp_fresh = sc.write("reads_copy.fa", &ser::to_fasta(&b, &SerOpts::plain()));
        let t = rng.usize(1, 8).to_string();
        let (argv, is_dir, inner, ordered): (Vec<String>, bool, &str, bool) = match family {
            0 => (sv(&["comp", "oligo", "-i", &inp, "-k", &rng.usize(3, 5).to_string(), "-t", &t]), false, "", true),
            1 => (sv(&["comp", "oligo", "-i", &inp, "-k", &rng.usize(3, 5).to_string(), "-c", "-t", &t]), false, "", true),
            2 => (sv(&["comp", "cgr", "-i", &inp, "-v", "64", "-t", &t]), false, "", true),
            3 => (sv(&["comp", "cgr", "-i", &inp, "-k", &rng.usize(3, 4).to_string(), "-v", "64", "-t", &t]), false, "", true),
            4 => (sv(&["ctr", "-i", &inp, "-k", &rng.usize(10, 14).to_string(), "-t", &t]), true, "kmers.counts", false),
            5 => (sv(&["cov", "-i", &inp, "-k", &rng.usize(7, 10).to_string(), "-s", "5", "-c", "7", "-t", &t]), true, "kmers.vectors", true),
            6 => (sv(&["min", "-i", &inp, "-m", "8", "-w", "14", "-p", "s2m", "-t", &t]), false, "", false),
            _ => (sv(&["min", "-i", &inp, "-m", "8", "-w", "14", "-p", "m2s", "-t", &t]), false, "", false),
        };
        let fam_name = ["comp oligo", "comp oligo -c", "comp cgr", "comp cgr -k", "ctr", "cov", "min s2m", "min m2s"][family as usize];
        st.case(true, mix(idx) ^ hash_bytes(argv.join(" ").as_bytes()));
        st.class(fam_name);
        let shared = sc.path("shared");
        let fresh = sc.path("fresh");
        let case = || Json::obj().set("argv", Json::s(argv.join(" "))).set("records", Json::u(nrec)).set("changed_record", Json::u(mid)).set("old_bases", Json::bytes(&a[mid].seq)).set("new_bases", Json::bytes(&b[mid].seq));
        let run = |st: &mut Stats, a: &[String], out: &str| -> Option<bool> {
            let mut args = a.to_vec();
            args.push("-o".into());
            args.push(out.to_string());
            let r = run_cli(ctx, &args, None, &CliLimits::default());
            if r.timed_out && !r.cpu_exceeded && !r.stalled {
                st.inconclusive(format!("CLI watchdog: {}", r.describe()));
                return None;
            }
            Some(r.ok())
        };
        let argv_fresh = mk_same(&argv, &inp, &inp_fresh);
        let _ = std::fs::write(&inp, ser::to_fasta(&a, &SerOpts::plain()));
        for (step, (av, out)) in [(&argv, &shared), (&argv, &shared), (&argv_fresh, &fresh)].into_iter().enumerate() {
            if step == 1 {
                let _ = std::fs::write(&inp, ser::to_fasta(&b, &SerOpts::plain()));
            }
            match run(st, av, out) {
                None => return,
                Some(false) => {
                    st.violate(&format!("history.cli_run_failed:{}", fam_name), format!("{} failed (step {})", av.join(" "), step), case());
                    return;
                }
                Some(true) => {}
            }
        }
        let read = |base: &str| -> Vec<u8> {
            let p = if is_dir { format!("{}/{}", base, inner) } else { base.to_string() };
            std::fs::read(p).unwrap_or_default()
        };
        let (x, y) = (read(&shared), read(&fresh));
        let same = if ordered { x == y } else if family == 7 { super::c10::normalise_m2s(&x) == super::c10::normalise_m2s(&y) } else { sorted_lines(&x) == sorted_lines(&y) };
        if !same {
            st.violate(
                &format!("history.depends_on_similar_earlier_run:cli.{}", fam_name),
                format!("[{}] after a run on the same {} records except record {}: {} bytes, differs from a fresh location ({} bytes)", argv.join(" "), nrec, mid, x.len(), y.len()),
                case(),
            );
        } else if idx % 5 == 0 {
            st.sample(case());
        }
        let _ = std::fs::remove_dir_all(&shared);
        let _ = std::fs::remove_file(&shared);
        if let Some(dir) = std::path::Path::new(&inp).parent() {
            if let Ok(rd) = std::fs::read_dir(dir) {
                for e in rd.flatten() {
                    if e.file_name().to_string_lossy().starts_with("reads.fa") {
                        let _ = std::fs::remove_file(e.path());
                    }
                }
            }
        }
    })
}

/// Occupy a given process id with a harmless long-lived process (`sleep`): fork short-lived children until the kernel's
/// pid counter is just below the target, then start the holder.  Returns the holder if it really got the pid.
fn occupy_pid(target: u32) -> Option<std::process::Child> {
    // thread ids come from the same counter as process ids: short-lived threads advance it cheaply
    let next_id = || -> u32 { std::thread::spawn(|| unsafe { libc::syscall(libc::SYS_gettid) as u32 }).join().unwrap_or(0) };
    for _cycle in 0..4 {
        let mut guard = 0u32;
        loop {
            guard += 1;
            if guard > 120_000 {
                break;
            }
            let id = next_id();
            if id == 0 {
                return None;
            }
            if id < target && target - id <= 1 {
                // the next few ids: start holders until one lands on the target
                let mut spare = Vec::new();
                let mut got = None;
                for _ in 0..5 {
                    match std::process::Command::new("sleep").arg("120").stdin(std::process::Stdio::null()).stdout(std::process::Stdio::null()).stderr(std::process::Stdio::null()).spawn() {
                        Ok(ch) => {
                            if ch.id() == target {
                                got = Some(ch);
                                break;
                            } else if ch.id() > target {
                                spare.push(ch);
                                break;
                            }
                            spare.push(ch);
                        }
                        Err(_) => break,
                    }
                }
                for mut ch in spare {
                    let _ = ch.kill();
                    let _ = ch.wait();
                }
                if got.is_some() {
                    return got;
                }
                break; // missed (somebody else took it): another cycle
            }
        }
    }
    None
}

/// The earlier run was killed and *its process id is in use again* by an unrelated process when the next run starts
/// (after a reboot or on a busy machine this is ordinary): anything that decides "the earlier run is still going" from the
/// mere existence of a process with the recorded id refuses to work or keeps the stale results.
pub fn pidreuse(ctx: &Ctx) -> Stats {
    let mut st = Stats::new();
    let n = ctx.n(2, 8);
    for idx in 0..n {
        if ctx.expired() {
            st.truncated = true;
            break;
        }
        let mut rng = Rng::keyed(ctx.seed, "c17.pidreuse", idx);
        let sc = Scratch::new(ctx, "c17p");
        let family = idx % 4;
        let big: Vec<Rec> = (0..rng.usize(8000, 12000)).map(|i| Rec { id: format!("k{}", i), desc: None, seq: (0..rng.usize(80, 200)).map(|_| *rng.pick(b"ACGT")).collect() }).collect();
        let small: Vec<Rec> = (0..rng.usize(3, 30)).map(|i| Rec { id: format!("s{}", i), desc: None, seq: (0..rng.usize(20, 120)).map(|_| *rng.pick(b"ACGT")).collect() }).collect();
        let inp_big = sc.write("big.fa", &ser::to_fasta(&big, &SerOpts::plain()));
        let inp_small = sc.write("small.fa", &ser::to_fasta(&small, &SerOpts::plain()));
        let mk = |inp: &str, t: &str| -> (Vec<String>, bool, &'static str, bool) {
            match family {
                0 => (sv(&["ctr", "-i", inp, "-k", "12", "-t", t]), true, "kmers.counts", false),
                1 => (sv(&["cov", "-i", inp, "-k", "9", "-s", "5", "-c", "6", "-t", t]), true, "kmers.vectors", true),
                2 => (sv(&["comp", "oligo", "-i", inp, "-k", "4", "-t", t]), false, "", true),
                _ => (sv(&["min", "-i", inp, "-m", "8", "-w", "15", "-p", "s2m", "-t", t]), false, "", false),
            }
        };
        let first = mk(&inp_big, "8");
        let second = mk(&inp_small, "2");
        let shared = sc.path("shared");
        let fresh = sc.path("fresh");
        let fam_name = ["ctr", "cov", "comp oligo", "min s2m"][family as usize];
        st.case(true, mix(idx) ^ mix(family + 91));
        st.class(fam_name);
        let case = || Json::obj().set("first", Json::s(first.0.join(" "))).set("second", Json::s(second.0.join(" ")));
        // the earlier run, killed after 30 ms
        let mut args = first.0.clone();
        args.push("-o".into());
        args.push(shared.clone());
        let killed_pid = match std::process::Command::new(ctx.cli_path()).args(&args).stdin(std::process::Stdio::null()).stdout(std::process::Stdio::null()).stderr(std::process::Stdio::null()).spawn() {
            Ok(mut ch) => {
                std::thread::sleep(std::time::Duration::from_millis(30));
                let pid = ch.id();
                let _ = ch.kill();
                let _ = ch.wait();
                pid
            }
            Err(e) => {
                st.inconclusive(format!("cannot start the CLI: {}", e));
                continue;
            }
        };
        let holder = occupy_pid(killed_pid);
        if holder.is_none() {
            st.inconclusive(format!("could not bring process id {} back into use", killed_pid));
            continue;
        }
        st.class("pid of the killed run in use again");
        let run = |st: &mut Stats, a: &[String], out: &str| -> Option<bool> {
            let mut args = a.to_vec();
            args.push("-o".into());
            args.push(out.to_string());
            let r = run_cli(ctx, &args, None, &CliLimits::default());
            if r.timed_out && !r.cpu_exceeded && !r.stalled {
                st.inconclusive(format!("CLI watchdog: {}", r.describe()));
                return None;
            }
            Some(r.ok())
        };
        let mut failed = false;
        for (a, out) in [(&second.0, &shared), (&second.0, &fresh)] {
            match run(&mut st, a, out) {
                None => {
                    failed = true;
                    break;
                }
                Some(false) => {
                    st.violate(&format!("history.cli_run_failed_after_kill:{}", fam_name), format!("{} failed although the earlier run is dead (its pid {} belongs to an unrelated process)", a.join(" "), killed_pid), case());
                    failed = true;
                    break;
                }
                Some(true) => {}
            }
        }
        if let Some(mut h) = holder {
            let _ = h.kill();
            let _ = h.wait();
        }
        if failed {
            continue;
        }
        let read = |base: &str| -> Vec<u8> {
            let p = if second.1 { format!("{}/{}", base, second.2) } else { base.to_string() };
            std::fs::read(p).unwrap_or_default()
        };
        let (a, b) = (read(&shared), read(&fresh));
        let same = if second.3 { a == b } else { sorted_lines(&a) == sorted_lines(&b) };
        if !same {
            st.violate(
                &format!("history.depends_on_killed_run:pid_in_use:cli.{}", fam_name),
                format!("after [{}] was killed and its process id {} was taken by an unrelated process, [{}] into the same location gives {} bytes; a fresh location gives {} bytes", first.0.join(" "), killed_pid, second.0.join(" "), a.len(), b.len()),
                case(),
            );
        } else {
            st.sample(case().set("reused_pid", Json::Int(killed_pid as i128)));
        }
        let _ = std::fs::remove_dir_all(&shared);
        let _ = std::fs::remove_file(&shared);
    }
    st
}

