//! C16 — every subcommand ends cleanly with one row per record on degenerate input.
//!
//! CLI matrix on the real binary (exit status, panic text, abort signal, row counts, zero rows,
//! placeholder detection through the C09/C10 oracles, bounded-progress hang detection on CPU time)
//! and the same matrix through the library entry points in-process (run in R and D flavours).

use super::c07::{check_final, run_counter, CtrCfg, CtrRun};
use super::c08::{check_vectors, run_cov, CovCfg};
use super::c10::{check_m2s, check_s2m, run_min, MinMode};
use super::cgr::{check_oligocgr_rows, parse_points};
use super::oligo::*;
use crate::common::*;
use crate::util::*;
use composition::cgr::CgrComputer;
use composition::oligocgr::OligoCgrComputer;
use refmodel::gen::Rec;
use refmodel::json::Json;
use refmodel::model;
use refmodel::rng::{hash_bytes, mix, Rng};
use refmodel::ser::{self, GzLayout, SerOpts};

#[derive(Clone, Debug)]
pub struct Degenerate {
    pub name: String,
    pub recs: Vec<Rec>,
}

fn rec(i: usize, seq: &[u8]) -> Rec {
    Rec { id: format!("d{}", i), desc: None, seq: seq.to_vec() }
}

fn clean(rng: &mut Rng, len: usize) -> Vec<u8> {
    (0..len).map(|_| *rng.pick(b"ACGT")).collect()
}

/// degenerate and boundary inputs for sizes (k, w)
pub fn degenerate_inputs(rng: &mut Rng, k: usize, w: usize) -> Vec<Degenerate> {
    let mut v = Vec::new();
    let mut add = |name: &str, recs: Vec<Rec>| v.push(Degenerate { name: name.to_string(), recs });
    add("empty-file", vec![]);
    add("one-empty-record", vec![rec(0, b"")]);
    add("three-empty-records", vec![rec(0, b""), rec(1, b""), rec(2, b"")]);
    add("len-1", vec![rec(0, b"A")]);
    add("len-k-1", vec![rec(0, &clean(rng, k.saturating_sub(1)))]);
    add("len-k", vec![rec(0, &clean(rng, k))]);
    add("len-w-1", vec![rec(0, &clean(rng, w.saturating_sub(1)))]);
    add("len-w", vec![rec(0, &clean(rng, w))]);
    add("all-N", vec![rec(0, &vec![b'N'; w + 3]), rec(1, b"NNNN")]);
    let mut nf = clean(rng, w + 5);
    nf[0] = b'N';
    let mut nl = clean(rng, w + 5);
    let l = nl.len();
    nl[l - 1] = b'N';
    add("N-first", vec![rec(0, &nf)]);
    add("N-last", vec![rec(0, &nl)]);
    add(
        "mixture",
        vec![rec(0, &clean(rng, w + 10)), rec(1, b""), rec(2, &clean(rng, k.saturating_sub(1))), rec(3, &vec![b'N'; k + 2]), rec(4, &nf), rec(5, &clean(rng, 1))],
    );
    add("mixture-empty-tail", vec![rec(0, &clean(rng, w + 10)), rec(1, b"NN"), rec(2, b""), rec(3, b"")]);
    add("short-then-long", vec![rec(0, &clean(rng, 2)), rec(1, &clean(rng, w * 2 + 7))]);
    // a record dominated by a very long run of N (and an all-N record of that size)
    let mut longn = clean(rng, w + 3);
    longn.extend(std::iter::repeat(b'N').take(150_000));
    longn.extend(clean(rng, w + 3));
    add("long-N-run", vec![rec(0, &clean(rng, w + 1)), rec(1, &longn), rec(2, &vec![b'N'; 80_000])]);
    // tens of thousands of records none of which yields anything (progress reporting, batching and flushing thresholds
    // are reached with nothing computed yet): all shorter than k / all ambiguous / a mix with empty records
    let many = 10_000 + rng.usize(1, 2500);
    add("many-short-records", (0..many).map(|i| rec(i, &clean(rng, 1 + i % (k.saturating_sub(1)).max(1)))).collect());
    add("many-all-N-records", (0..many).map(|i| rec(i, &vec![b'N'; 1 + i % 40])).collect());
    add("many-mixed-degenerate-records", (0..many).map(|i| if i % 3 == 0 { rec(i, b"") } else if i % 3 == 1 { rec(i, b"NNNNNNNNNNNNNNNN") } else { rec(i, b"AC") }).collect());
    v
}

fn input_json(d: &Degenerate, layout: &str) -> Json {
    Json::obj().set("input", Json::s(d.name.clone())).set("layout", Json::s(layout)).set("n_records", Json::u(d.recs.len())).set("records", recs_json(&d.recs[..d.recs.len().min(40)]))
}

/// serialise: FASTA always legal; FASTQ only when every record has a base; optional gzip
fn write_degenerate(sc: &Scratch, d: &Degenerate, rng: &mut Rng) -> (String, String) {
    let fastq_ok = !d.recs.is_empty() && d.recs.iter().all(|r| !r.seq.is_empty());
    let fastq = fastq_ok && rng.chance(1, 3);
    let gz = rng.chance(1, 4);
    // "every well-formed input": half of the files use a random legal layout (wrapped lines, CRLF, no final newline) and
    // carry header descriptions, some of them with the characters that start records elsewhere
    let fancy = rng.chance(1, 2) && d.recs.len() < 1000;
    let opts = if fancy { SerOpts::random(rng) } else { SerOpts::plain() };
    let recs: Vec<Rec> = if fancy {
        d.recs.iter().enumerate().map(|(i, r)| Rec { id: r.id.clone(), desc: if i % 2 == 0 { Some(["c.35G>A", "len=3 >x", "a@b +1", ">"][i / 2 % 4].to_string()) } else { None }, seq: r.seq.clone() }).collect()
    } else {
        d.recs.clone()
    };
    let raw = if fastq { ser::to_fastq(&recs, &opts) } else { ser::to_fasta(&recs, &opts) };
    let (data, suffix) = if gz { (ser::gzip(&raw, &GzLayout::Single(6), rng), if fastq { "fq.gz" } else { "fa.gz" }) } else { (raw, if fastq { "fq" } else { "fa" }) };
    let p = sc.write(&format!("in.{}", suffix), &data);
    (p, format!("{}{}{}", if fastq { "fastq" } else { "fasta" }, if gz { "+gz" } else { "" }, if fancy { format!(" [{} +descriptions]", opts.describe()) } else { String::new() }))
}

fn all_zero_row(row: &[u8], delim: &[u8]) -> bool {
    split_fields(row, delim).iter().all(|f| parse_f64(f) == Some(0.0))
}

struct CliCase {
    name: &'static str,
    args: Vec<String>,
    kind: Kind,
}

#[derive(Clone, Copy, PartialEq)]
enum Kind {
    Oligo { k: usize, norm: bool, header: bool, delim: &'static str },
    Cgr,
    Kcgr { k: usize, norm: bool },
    Cov { k: usize, norm: bool, delim: &'static str },
    Ctr { k: usize },
    Min { m: usize, w: usize, s2m: bool },
}

fn judge_cli(ctx: &Ctx, st: &mut Stats, d: &Degenerate, layout: &str, c: &CliCase, out_file: &str, out_dir: &str, stdin: Option<&[u8]>) {
    let case = || input_json(d, layout).set("argv", Json::s(c.args.join(" ")));
    let lim = CliLimits { wall: std::time::Duration::from_secs(180), cpu_max_s: 60.0, stall: std::time::Duration::from_secs(30) };
    // every third case runs with stderr attached to a pseudo-terminal: progress bars are only drawn then
    let tty = (hash_bytes(c.args.join(" ").as_bytes()) ^ hash_bytes(d.name.as_bytes())) % 3 == 0
        || (matches!(c.kind, Kind::Ctr { .. } | Kind::Cov { .. }) && (d.recs.is_empty() || d.recs.iter().all(|r| r.seq.is_empty())));
    if tty {
        st.class("stderr-is-a-tty");
    }
    let res = with_cli_extra(CliExtra { tty_stderr: tty, ..Default::default() }, || run_cli(ctx, &c.args, stdin, &lim));
    let input_class = if d.recs.is_empty() { "empty-input" } else { "records" };
    if res.cpu_exceeded {
        st.violate(&format!("cli.hang.cpu:{}", c.name), format!("consumed {:.0}s CPU on a {}-record degenerate input", res.cpu_s, d.recs.len()), case());
        return;
    }
    if res.stalled {
        st.violate(&format!("cli.hang.stall:{}", c.name), "no CPU progress for 30 s while alive".into(), case());
        return;
    }
    if res.timed_out {
        st.inconclusive(format!("wall-clock watchdog without a hang signature: {} {}", c.name, res.describe()));
        return;
    }
    if res.valgrind_errors {
        st.violate(&format!("cli.valgrind:{}", c.name), format!("memcheck reported errors: {}", truncate(&res.stderr, 400)), case());
        return;
    }
    let has_foreign = d.recs.iter().any(|r| r.seq.iter().any(|&b| model::base_digit(b).is_none()));
    if !res.ok() || res.stderr.contains("panicked at") {
        if c.kind == Kind::Cgr && has_foreign {
            // refusal is allowed; then no row for the refused record may exist
            let first_bad = d.recs.iter().position(|r| r.seq.iter().any(|&b| model::base_digit(b).is_none())).unwrap();
            let rows = lines(&std::fs::read(out_file).unwrap_or_default()).len();
            if rows > first_bad {
                st.violate("cli.cgr.row_for_refused_record", format!("whole-sequence CGR refused the input but wrote {} rows (first non-nucleotide record is {})", rows, first_bad), case());
            } else {
                st.class("cgr-refusal-allowed");
            }
            return;
        }
        let what = if res.stderr.contains("panicked at") { "panic" } else if res.signal.is_some() { "signal" } else { "exit" };
        let site = res.stderr.lines().find(|l| l.contains("panicked at")).map(|l| l.split("panicked at ").nth(1).unwrap_or("").split(':').next().unwrap_or("").to_string()).unwrap_or_default();
        st.violate(
            &format!("cli.{}:{}:{}:{}", what, c.name, site, input_class),
            format!("{} on input [{}]: {}", c.name, d.name, res.describe()),
            case(),
        );
        return;
    }
    // exit 0: judge the outputs
    let n = d.recs.len();
    match c.kind {
        Kind::Oligo { k, norm, header, delim } => {
            let cfg = OligoCfg { k, threads: 1, memory: 0, header, delim: delim.into(), norm, writer: Writer::Public };
            let data = std::fs::read(out_file).unwrap_or_default();
            if let Err((sig, msg)) = check_rows(&data, &d.recs, &cfg) {
                st.violate(&format!("cli.{}:{}", sig, c.name), format!("[{}] {}", d.name, msg), case());
                return;
            }
            let ls = lines(&data);
            let rows = if header { &ls[1.min(ls.len())..] } else { &ls[..] };
            for (row, r) in rows.iter().zip(d.recs.iter()) {
                if model::windows(&r.seq, k).is_empty() && !all_zero_row(row, delim.as_bytes()) {
                    st.violate(&format!("cli.nonzero_row:{}", c.name), format!("[{}] record {} has no valid window but its row is not all-zero", d.name, r.id), case());
                    return;
                }
            }
        }
        Kind::Cgr => {
            let data = std::fs::read(out_file).unwrap_or_default();
            let ls = lines(&data);
            if has_foreign {
                // the binary reported success although a record cannot be drawn: no coordinates may exist for it
                let first_bad = d.recs.iter().position(|r| r.seq.iter().any(|&b| model::base_digit(b).is_none())).unwrap();
                if ls.len() > first_bad {
                    st.violate("cli.cgr.row_for_refused_record", format!("[{}] {} rows although record {} holds a non-nucleotide byte", d.name, ls.len(), first_bad), case());
                }
                return;
            }
            if ls.len() != n {
                st.violate(&format!("cli.rowcount:{}:{}", c.name, input_class), format!("[{}] {} rows for {} records", d.name, ls.len(), n), case());
                return;
            }
            for (l, r) in ls.iter().zip(d.recs.iter()) {
                match parse_points(l, 2) {
                    Ok(p) if p.len() == r.seq.len() => {}
                    Ok(p) => {
                        st.violate("cli.cgr.point_count", format!("[{}] record {}: {} points for {} bases", d.name, r.id, p.len(), r.seq.len()), case());
                        return;
                    }
                    Err(e) => {
                        st.violate("cli.cgr.malformed", format!("[{}] {}", d.name, e), case());
                        return;
                    }
                }
            }
        }
        Kind::Kcgr { k, norm } => {
            let data = std::fs::read(out_file).unwrap_or_default();
            if let Err((sig, msg)) = check_oligocgr_rows(&data, &d.recs, k, 16, norm) {
                st.violate(&format!("cli.{}:{}", sig, c.name), format!("[{}] {}", d.name, msg), case());
            }
        }
        Kind::Cov { k, norm, delim } => {
            let data = std::fs::read(format!("{}/kmers.vectors", out_dir)).unwrap_or_default();
            let cfg = CovCfg { k, bin_size: 5, bin_count: 6, norm, threads: 1, mem_gb: 6.0, delim: delim.into(), alt: false };
            if let Err((sig, msg)) = check_vectors(&data, &d.recs, &d.recs, &cfg) {
                st.violate(&format!("cli.{}:{}", sig, c.name), format!("[{}] {}", d.name, msg), case());
                return;
            }
            for (row, r) in lines(&data).iter().zip(d.recs.iter()) {
                if model::windows(&r.seq, k).is_empty() && !all_zero_row(row, delim.as_bytes()) {
                    st.violate(&format!("cli.nonzero_row:{}", c.name), format!("[{}] record {} has no valid window but its row is not all-zero", d.name, r.id), case());
                    return;
                }
            }
        }
        Kind::Ctr { k } => {
            let leftover: Vec<String> = Vec::new(); // (stale files may have been planted on purpose: only the counts table is judged here)
            let run = CtrRun { result: Ok(()), temps: vec![], temp_parse_error: None, counts_raw: std::fs::read(format!("{}/kmers.counts", out_dir)).ok(), leftover, trace: None };
            let cfg = CtrCfg { k, threads: 1, mem_gb: 6.0, acgt: false };
            if let Err((sig, msg)) = check_final(&run, &d.recs, &cfg) {
                st.violate(&format!("cli.{}:{}", sig, c.name), format!("[{}] {}", d.name, msg), case());
            }
        }
        Kind::Min { m, w, s2m } => {
            let data = std::fs::read(out_file).unwrap_or_default();
            let r = if s2m { check_s2m(&data, &d.recs, w, m) } else { check_m2s(&data, &d.recs, w, m) };
            if let Err((sig, msg)) = r {
                st.violate(&format!("cli.{}:{}", sig.trim_start_matches("HARNESS."), c.name), format!("[{}] {}", d.name, msg), case());
            }
        }
    }
}

/// the real binary on the degenerate matrix
pub fn cli(ctx: &Ctx) -> Stats {
    // build the (input, subcommand) matrix first, then run it in parallel
    let mut rng0 = Rng::keyed(ctx.seed, "c16.cli", 0);
    let reps = ctx.pick(1usize, 6usize);
    let mut jobs: Vec<(Degenerate, usize)> = Vec::new();
    for rep in 0..reps {
        let (k, w) = if rep == 0 { (3usize, 12usize) } else { (rng0.usize(3, 7), rng0.usize(9, 40)) };
        let _ = (k, w);
        for d in degenerate_inputs(&mut rng0, 7, 12) {
            for which in 0..14usize {
                jobs.push((d.clone(), which));
            }
        }
    }
    let n = jobs.len() as u64;
    par_cases(ctx, n, |idx, st| {
        let (d, which) = &jobs[idx as usize];
        let mut rng = Rng::keyed(ctx.seed, "c16.cli.case", idx);
        let sc = Scratch::new(ctx, "c16");
        let (inp, layout) = write_degenerate(&sc, d, &mut rng);
        let out_file = sc.path("out.txt");
        let out_dir = sc.path("outdir");
        let t = if idx % 2 == 0 { "1" } else { "16" };
        let raw_fasta = ser::to_fasta(&d.recs, &SerOpts::plain());
        let mut stdin: Option<&[u8]> = None;
        // "every accepted option combination": the delimiter preset varies with the case (one in three each)
        let (preset, delim): (&str, &'static str) = [("spc", " "), ("csv", ","), ("tsv", "\t")][((idx / 13) % 3) as usize];
        let c = match which {
            0 => CliCase { name: "oligo(mmap)", args: sv(&["comp", "oligo", "-i", &inp, "-o", &out_file, "-k", "3", "-t", t, "-p", preset]), kind: Kind::Oligo { k: 3, norm: true, header: false, delim } },
            1 => CliCase { name: "oligo(mmap,-H)", args: sv(&["comp", "oligo", "-i", &inp, "-o", &out_file, "-k", "4", "-H", "-t", t, "-p", preset]), kind: Kind::Oligo { k: 4, norm: true, header: true, delim } },
            2 => CliCase { name: "oligo(-c,batch)", args: sv(&["comp", "oligo", "-i", &inp, "-o", &out_file, "-k", "3", "-c", "-t", t, "-p", preset]), kind: Kind::Oligo { k: 3, norm: false, header: false, delim } },
            3 => {
                stdin = Some(&raw_fasta);
                CliCase { name: "oligo(stdin,batch)", args: sv(&["comp", "oligo", "-i", "-", "-o", &out_file, "-k", "3", "-H", "-t", t, "-p", preset]), kind: Kind::Oligo { k: 3, norm: true, header: true, delim } }
            }
            4 => CliCase { name: "cgr", args: sv(&["comp", "cgr", "-i", &inp, "-o", &out_file, "-v", "16", "-t", t]), kind: Kind::Cgr },
            5 => CliCase { name: "cgr(-k)", args: sv(&["comp", "cgr", "-i", &inp, "-o", &out_file, "-k", "3", "-v", "16", "-t", t]), kind: Kind::Kcgr { k: 3, norm: true } },
            6 => CliCase { name: "cgr(-k,-c)", args: sv(&["comp", "cgr", "-i", &inp, "-o", &out_file, "-k", "4", "-c", "-v", "16", "-t", t]), kind: Kind::Kcgr { k: 4, norm: false } },
            7 => CliCase { name: "cov", args: sv(&["cov", "-i", &inp, "-o", &out_dir, "-k", "7", "-s", "5", "-c", "6", "-t", t, "-p", preset]), kind: Kind::Cov { k: 7, norm: true, delim } },
            8 => CliCase { name: "cov(--counts)", args: sv(&["cov", "-i", &inp, "-o", &out_dir, "-k", "7", "-s", "5", "-c", "6", "--counts", "-t", t, "-p", preset]), kind: Kind::Cov { k: 7, norm: false, delim } },
            9 => CliCase { name: "ctr", args: sv(&["ctr", "-i", &inp, "-o", &out_dir, "-k", "10", "-t", t]), kind: Kind::Ctr { k: 10 } },
            12 => {
                // the counting input is the same records in the *other* format family where that is legal
                // (FASTQ needs bases), otherwise the same family; --alt-input must only change where counts come from
                let main_is_fq = inp.contains(".fq");
                let fastq_ok = !d.recs.is_empty() && d.recs.iter().all(|r| !r.seq.is_empty());
                let alt = if !main_is_fq && fastq_ok { sc.write("alt.fastq", &ser::to_fastq(&d.recs, &SerOpts::plain())) } else { sc.write("alt.fna", &ser::to_fasta(&d.recs, &SerOpts::plain())) };
                CliCase { name: "cov(--alt-input)", args: sv(&["cov", "-i", &inp, "-a", &alt, "-o", &out_dir, "-k", "7", "-s", "5", "-c", "6", "-t", t, "-p", preset]), kind: Kind::Cov { k: 7, norm: true, delim } }
            }
            13 => {
                // a window far longer than any record ("records shorter than w"): nothing can be computed, one
                // empty line per record; the window option has no documented upper bound
                let s2m = idx % 4 < 2;
                let w = [1_000_000usize, 10_000_000_000, 10_000_000_000_000, 1 << 62][(idx / 4 % 4) as usize];
                let ws = w.to_string();
                CliCase { name: if s2m { "min(huge w,s2m)" } else { "min(huge w,m2s)" }, args: sv(&["min", "-i", &inp, "-o", &out_file, "-m", "7", "-w", &ws, "-p", if s2m { "s2m" } else { "m2s" }, "-t", t]), kind: Kind::Min { m: 7, w, s2m } }
            }
            10 => {
                let s2m = idx % 4 < 2;
                CliCase { name: if s2m { "min(w=0,s2m)" } else { "min(w=0,m2s)" }, args: sv(&["min", "-i", &inp, "-o", &out_file, "-m", "7", "-w", "0", "-p", if s2m { "s2m" } else { "m2s" }, "-t", t]), kind: Kind::Min { m: 7, w: 0, s2m } }
            }
            _ => {
                let s2m = idx % 4 < 2;
                CliCase { name: if s2m { "min(w=12,s2m)" } else { "min(w=12,m2s)" }, args: sv(&["min", "-i", &inp, "-o", &out_file, "-m", "7", "-w", "12", "-p", if s2m { "s2m" } else { "m2s" }, "-t", t]), kind: Kind::Min { m: 7, w: 12, s2m } }
            }
        };
        // stdin input is plain FASTA whatever layout was drawn for the file
        if stdin.is_some() && d.recs.is_empty() {
            // empty stdin: still a well-formed (empty) input
        }
        if matches!(c.kind, Kind::Ctr { .. } | Kind::Cov { .. }) && idx % 3 == 0 {
            // the output directory of an earlier, interrupted run: temp chunk files left behind
            let _ = std::fs::create_dir_all(&out_dir);
            for p in 0..18 {
                for ch in 0..3 {
                    let _ = std::fs::write(format!("{}/temp_kmers.part_{}_chunk_{}", out_dir, p, ch), format!("{}\t41\n{}\t7\n", p, 1000 + p * 3 + ch));
                }
            }
            st.class("stale-temp-files-in-output-dir");
        }
        st.case(true, mix(idx) ^ hash_bytes(c.args.join(" ").as_bytes()) ^ hash_bytes(d.name.as_bytes()));
        st.class(c.name);
        st.class(&format!("input:{}", d.name));
        judge_cli(ctx, st, d, &layout, &c, &out_file, &out_dir, stdin);
        if idx % 29 == 0 {
            st.sample(input_json(d, &layout).set("argv", Json::s(c.args.join(" "))));
        }
    })
}

/// library entry points on the same matrix (panics caught; UB-precondition aborts are picked up
/// by the driver from the current-case file)
pub fn lib(ctx: &Ctx) -> Stats {
    let mut st = Stats::new();
    let reps = ctx.pick(2u64, 12u64);
    let mut i = 0u64;
    for rep in 0..reps {
        let mut rng = Rng::keyed(ctx.seed, "c16.lib", rep);
        let k = rng.usize(1, 6);
        let m = rng.usize(1, 9);
        let w = m + rng.usize(1, 12);
        // (the ten-thousand-record inputs are for the CLI matrix only: the tiny memory ceilings used here would turn each of
        // their records into a chunk of its own — hundreds of thousands of spill files, a disk-space test rather than this one)
        for d in degenerate_inputs(&mut rng, k.max(m), w).into_iter().filter(|d| !d.name.starts_with("many-")) {
            if ctx.expired() {
                st.truncated = true;
                return st;
            }
            let sc = Scratch::new(ctx, "c16l");
            let (inp, layout) = write_degenerate(&sc, &d, &mut rng);
            let threads = if i % 2 == 0 { 1 } else { 16 };
            let base = || input_json(&d, &layout).set("k", Json::u(k)).set("m", Json::u(m)).set("w", Json::u(w)).set("threads", Json::u(threads));
            let input_class = if d.recs.is_empty() { "empty-input" } else { "records" };
            // --- oligo, both writers
            for (writer, norm, header) in [(Writer::Mmap, true, false), (Writer::Mmap, true, true), (Writer::Batch, false, false), (Writer::Batch, true, true)] {
                i += 1;
                let cfg = OligoCfg { k, threads, memory: if i % 3 == 0 { 1 } else { 4 << 30 }, header, delim: " ".into(), norm, writer };
                let case = base().set("entry", Json::s(format!("OligoComputer {:?} norm={} header={}", writer, norm, header)));
                note_current_case(ctx, &case);
                st.case(true, mix(i) ^ hash_bytes(d.name.as_bytes()));
                st.class(&format!("oligo.{:?}", writer));
                let run = run_oligo(&inp, &sc.path("o.kmers"), &cfg, None);
                match run.result {
                    Err(p) => st.violate(&format!("lib.{}:oligo.{:?}:{}", panic_sig(&p), writer, input_class), format!("[{}] {}", d.name, p), case),
                    Ok(Err(e)) => st.violate(&format!("lib.error:oligo.{:?}:{}", writer, input_class), format!("[{}] Err({})", d.name, e), case),
                    Ok(Ok(())) => {
                        if let Err((sig, msg)) = check_rows(&run.output.unwrap_or_default(), &d.recs, &cfg) {
                            st.violate(&format!("lib.{}:oligo.{:?}", sig, writer), format!("[{}] {}", d.name, msg), case);
                        }
                    }
                }
            }
            // --- k-mer CGR
            {
                i += 1;
                let kk = k.min(5);
                let norm = i % 2 == 0;
                let case = base().set("entry", Json::s(format!("OligoCgrComputer k={} norm={}", kk, norm)));
                note_current_case(ctx, &case);
                st.case(true, mix(i) ^ hash_bytes(d.name.as_bytes()));
                st.class("oligocgr");
                let outp = sc.path("o.kcgr");
                let r = guarded(|| {
                    let mut c = OligoCgrComputer::new(inp.clone(), outp.clone(), kk, 16);
                    c.set_threads(threads);
                    c.set_norm(norm);
                    c.vectorise()
                });
                match r {
                    Err(p) => st.violate(&format!("lib.{}:oligocgr:{}", panic_sig(&p), input_class), format!("[{}] {}", d.name, p), case),
                    Ok(Err(e)) => st.violate(&format!("lib.error:oligocgr:{}", input_class), format!("[{}] Err({})", d.name, e), case),
                    Ok(Ok(())) => {
                        if let Err((sig, msg)) = check_oligocgr_rows(&std::fs::read(&outp).unwrap_or_default(), &d.recs, kk, 16, norm) {
                            st.violate(&format!("lib.{}", sig), format!("[{}] {}", d.name, msg), case);
                        }
                    }
                }
            }
            // --- whole-sequence CGR (refusal allowed when a record holds a non-nucleotide byte)
            {
                i += 1;
                let case = base().set("entry", Json::s("CgrComputer"));
                note_current_case(ctx, &case);
                st.case(true, mix(i) ^ hash_bytes(d.name.as_bytes()));
                st.class("cgr");
                let outp = sc.path("o.cgr");
                let has_foreign = d.recs.iter().any(|r| r.seq.iter().any(|&b| model::base_digit(b).is_none()));
                let r = guarded(|| {
                    let mut c = CgrComputer::new(inp.clone(), outp.clone(), 16);
                    c.set_threads(threads);
                    c.vectorise()
                });
                let rows = lines(&std::fs::read(&outp).unwrap_or_default()).len();
                match r {
                    Ok(Ok(())) if !has_foreign => {
                        if rows != d.recs.len() {
                            st.violate(&format!("lib.cgr.rowcount:{}", input_class), format!("[{}] {} rows for {} records", d.name, rows, d.recs.len()), case);
                        }
                    }
                    Ok(Ok(())) => {
                        let first_bad = d.recs.iter().position(|r| r.seq.iter().any(|&b| model::base_digit(b).is_none())).unwrap();
                        if rows > first_bad {
                            st.violate("lib.cgr.row_for_refused_record", format!("[{}] {} rows although record {} cannot be drawn", d.name, rows, first_bad), case);
                        }
                    }
                    Err(p) if !has_foreign => st.violate(&format!("lib.{}:cgr:{}", panic_sig(&p), input_class), format!("[{}] {}", d.name, p), case),
                    Ok(Err(e)) if !has_foreign => st.violate(&format!("lib.error:cgr:{}", input_class), format!("[{}] Err({})", d.name, e), case),
                    _ => st.class("cgr-refusal-allowed"),
                }
            }
            // --- coverage
            for mem in [0.5f64, 6.0] {
                i += 1;
                let cfg = CovCfg { k, bin_size: 2, bin_count: 3, norm: i % 2 == 0, threads, mem_gb: mem, delim: " ".into(), alt: false };
                let case = base().set("entry", Json::s("CovComputer")).set("cfg", cfg.json());
                note_current_case(ctx, &case);
                st.case(true, mix(i) ^ hash_bytes(d.name.as_bytes()));
                st.class("coverage");
                match run_cov(&inp, None, &sc.subdir(&format!("cov{}", i)), &cfg) {
                    Err((sig, msg)) => st.violate(&format!("lib.{}:cov:{}", sig, input_class), format!("[{}] {}", d.name, msg), case),
                    Ok(data) => {
                        if let Err((sig, msg)) = check_vectors(&data, &d.recs, &d.recs, &cfg) {
                            st.violate(&format!("lib.{}", sig), format!("[{}] {}", d.name, msg), case);
                        }
                    }
                }
            }
            // --- counter
            {
                i += 1;
                let cfg = CtrCfg { k: k.max(1), threads, mem_gb: if i % 2 == 0 { 6.0 } else { 4e-9 }, acgt: false };
                let case = base().set("entry", Json::s("CountComputer")).set("cfg", cfg.json());
                note_current_case(ctx, &case);
                st.case(true, mix(i) ^ hash_bytes(d.name.as_bytes()));
                st.class("counter");
                let run = run_counter(&inp, &sc.subdir(&format!("ctr{}", i)), &cfg, None);
                match &run.result {
                    Err(p) => st.violate(&format!("lib.{}:ctr:{}", panic_sig(p), input_class), format!("[{}] {}", d.name, p), case),
                    Ok(()) => {
                        if let Err((sig, msg)) = check_final(&run, &d.recs, &cfg) {
                            st.violate(&format!("lib.{}", sig), format!("[{}] {}", d.name, msg), case);
                        }
                    }
                }
            }
            // --- minimisers, both modes, w = 0 and w > m
            for (ww, mode) in [(0usize, MinMode::S2m), (0, MinMode::M2s), (w, MinMode::S2m), (w, MinMode::M2s)] {
                i += 1;
                let case = base().set("entry", Json::s(format!("misc::minimisers {:?} w={}", mode, ww)));
                note_current_case(ctx, &case);
                st.case(true, mix(i) ^ hash_bytes(d.name.as_bytes()));
                st.class(&format!("min.{:?}.w{}", mode, if ww == 0 { "=0" } else { ">m" }));
                let res = run_min(mode, ww, m, &inp, &sc.path("o.min"), threads, None);
                match &res.0 {
                    Err(p) => {
                        let short = ww == 0 && d.recs.iter().any(|r| r.seq.len() < m);
                        let sig = if short && p.contains("capacity overflow") { "lib.min.w0.short".to_string() } else { format!("lib.{}:min:{}", panic_sig(p), input_class) };
                        st.violate(&sig, format!("[{}] {:?} w={} m={}: {}", d.name, mode, ww, m, p), case)
                    }
                    Ok(()) => {
                        let data = res.1.clone().unwrap_or_default();
                        let r = if mode == MinMode::S2m { check_s2m(&data, &d.recs, ww, m) } else { check_m2s(&data, &d.recs, ww, m) };
                        if let Err((sig, msg)) = r {
                            st.violate(&format!("lib.{}", sig.trim_start_matches("HARNESS.")), format!("[{}] {}", d.name, msg), case);
                        }
                    }
                }
            }
            if st.want_sample() {
                st.sample(base());
            }
        }
    }
    st
}
