//! C14 — unchecked indexing and memory-mapped writes always stay inside their buffers.
//!
//! (a) write-log monitor over every `mm.write(pos, len, capacity)` event of real mapped runs:
//!     in bounds, no overlap, exact tiling, capacity == file size == header + records x row length,
//!     no NUL byte left;  (b) sweeps over the `get_unchecked` sites, meant to be run in the checked
//!     flavour (std UB-precondition checks abort the process; the driver reads the current-case
//!     file), under ASan and under Miri (separate shard).

use super::c05::distinct_records;
use super::oligo::*;
use crate::common::*;
use crate::sched::{Controller, Mode};
use composition::oligo::OligoComputer;
use composition::oligocgr::OligoCgrComputer;
use coverage::CovComputer;
use refmodel::gen::{gen_len, gen_records, gen_seq_any};
use refmodel::json::Json;
use refmodel::model;
use refmodel::rng::{hash_bytes, mix, Rng};
use std::collections::{BTreeMap, HashMap};

const DELIMS: &[&str] = &["", " ", ",", "\t", "::", ", ", " | ", ";;;", "--------", "\u{2192}", "\u{1F9EC}"];

pub fn mmap(ctx: &Ctx) -> Stats {
    let mut st = Stats::new();
    let n = ctx.n(400, 12_000);
    let mut writes_logged = 0u64;
    for i in 0..n {
        if ctx.expired() {
            st.truncated = true;
            break;
        }
        let mut rng = Rng::keyed(ctx.seed, "c14.mmap", i);
        let k = match rng.below(12) {
            0 => 8,
            1 => 7,
            _ => rng.usize(1, 6),
        };
        let nrec = match rng.below(8) {
            0 => 0,
            1 => 1,
            2 => rng.usize(100, 200),
            _ => rng.usize(2, 40),
        };
        let nrec = if k >= 7 { nrec.min(6) } else { nrec };
        let mut recs = if rng.chance(1, 2) { distinct_records(&mut rng, nrec, k, true) } else { gen_records(&mut rng, nrec, k, None, 120, 0) };
        let mut k = k;
        if i % 200 == 17 {
            // a row whose dominant value rounds *up* to 1.000000 (frequency in [0.9999995, 1)) next to values that round
            // down to 0.000000: > 2 million windows of one k-mer and a single foreign one; the row must keep its fixed width
            k = rng.usize(1, 2);
            let n = rng.usize(2_050_000, 2_400_000);
            let mut seq = vec![b'A'; n];
            seq.push(b'C');
            let at = rng.usize(0, recs.len());
            recs.insert(at, refmodel::gen::Rec { id: "dominant".into(), desc: None, seq });
            st.class("row with a value in [0.9999995, 1)");
        }
        let delim = DELIMS[(i as usize) % DELIMS.len()];
        let cfg = OligoCfg { k, threads: rng.usize(1, 16), memory: 4 << 30, header: rng.chance(1, 2), delim: delim.to_string(), norm: true, writer: Writer::Mmap };
        let sc = Scratch::new(ctx, "c14m");
        // the size of the mapping comes from a first pass over the input: every container the reader accepts
        let fastq_ok = !recs.is_empty() && recs.iter().all(|r| !r.seq.is_empty());
        let cont = match rng.below(6) {
            0 => Container::FastaWrapped(rng.usize(1, 70)),
            1 => Container::FastaCrlf,
            2 if fastq_ok => Container::Fastq,
            3 if fastq_ok => Container::FastqWrapped(rng.usize(1, 50)),
            _ => Container::FastaSingle,
        };
        st.class(&cont.name().split('(').next().unwrap().to_string());
        let gz = if rng.chance(1, 5) { Some(refmodel::ser::GzLayout::Multi(rng.usize(2, 4))) } else { None };
        let inp = write_input(&sc, "in", &recs, &cont, gz.as_ref(), &mut rng);
        let outp = sc.path("out.kmers");
        let mode = if i % 3 == 0 { Mode::Perturbed { seed: rng.next_u64(), max_us: 50 } } else { Mode::Log };
        let ctl = Controller::new(mode, cfg.threads, "oligo.took", "oligo.exit", vec![]);
        let case = || {
            let small: Vec<refmodel::gen::Rec> = recs.iter().map(|r| if r.seq.len() > 100_000 { refmodel::gen::Rec { id: format!("{}(A*{}+C)", r.id, r.seq.len() - 1), desc: None, seq: b"A...AC".to_vec() } } else { r.clone() }).collect();
            Json::obj().set("cfg", cfg.json()).set("n_records", Json::u(recs.len())).set("records", recs_json(&small))
        };
        note_current_case(ctx, &case());
        let run = run_oligo(&inp, &outp, &cfg, Some(&ctl));
        let trace = run.trace.unwrap();
        st.case(!recs.is_empty(), mix(i) ^ hash_bytes(delim.as_bytes()) ^ mix(k as u64));
        st.class(&format!("delim_len={}", delim.len()));
        if recs.is_empty() {
            st.class("zero-records");
        }
        let delim_sig = |sig: &str| if delim.len() != 1 { format!("{}:delim_len!=1", sig) } else { sig.to_string() };
        match &run.result {
            Err(p) if is_oob_panic(p) => {
                st.violate(&delim_sig("mmap.write_out_of_bounds"), p.clone(), case());
                continue;
            }
            Err(p) => {
                st.violate(&delim_sig(&panic_sig(p)), format!("mapped writer panicked: {}", p), case());
                continue;
            }
            Ok(Err(e)) => {
                st.violate(&delim_sig("oligo.error"), format!("mapped writer returned Err({})", e), case());
                continue;
            }
            _ => {}
        }
        let data = run.output.unwrap_or_default();
        if trace.events.iter().all(|e| e.site != "mm.write") && (!recs.is_empty() || cfg.header) {
            // nothing went through the mapped writer although something had to be written: if the file is not what it
            // must be (size = header + records x row, every byte written) that is a violation in its own right;
            // only a *correct* file produced without the hook leaves the write log without a verdict
            if let Err((sig, msg)) = check_rows(&data, &recs, &cfg) {
                st.violate(&delim_sig(&sig), format!("{} (and no write went through the mapped writer)", msg), case());
            } else {
                st.inconclusive("hook mm.write never reached".into());
            }
            continue;
        }
        match check_write_log(&trace.events, &cfg, recs.len(), Some(data.len())) {
            Err((sig, msg)) => {
                st.violate(&delim_sig(&sig), msg, case());
                continue;
            }
            Ok((w, _)) => writes_logged += w,
        }
        if let Err((sig, msg)) = check_rows(&data, &recs, &cfg) {
            st.violate(&delim_sig(&sig), msg, case());
            continue;
        }
        if i % 67 == 0 {
            st.sample(Json::obj().set("cfg", cfg.json()).set("records", Json::u(recs.len())).set("row_len", Json::u(row_len(&cfg))).set("file_size", Json::u(data.len())));
        }
    }
    st.set_extra("mapped_writes_logged", Json::Int(writes_logged as i128));
    st
}

/// sweeps over the get_unchecked sites (per-record routines), values cross-checked as well
pub fn unchecked(ctx: &Ctx) -> Stats {
    let mut st = Stats::new();
    let n = ctx.n(30_000, 600_000);
    let oligo: Vec<OligoComputer> = (1..=8).map(|k| OligoComputer::new("u.fa".into(), "u.out".into(), k)).collect();
    let ocgr: Vec<OligoCgrComputer> = (1..=7).map(|k| OligoCgrComputer::new("u.fa".into(), "u.out".into(), k, 16)).collect();
    for i in 0..n {
        if ctx.expired() {
            st.truncated = true;
            break;
        }
        let mut rng = Rng::keyed(ctx.seed, "c14.unchecked", i);
        let site = i % 3;
        match site {
            0 => {
                let k = rng.usize(1, 8);
                let len = gen_len(&mut rng, k, None, 200);
                let (_, seq) = gen_seq_any(&mut rng, len, false);
                let case = Json::obj().set("site", Json::s("composition::oligo::vectorise_one")).set("k", Json::u(k)).set("seq", Json::bytes(&seq));
                if i % 64 == 0 {
                    note_current_case(ctx, &case);
                }
                st.case(seq.len() >= k, hash_bytes(&seq) ^ mix(k as u64));
                st.class("oligo.vectorise_one");
                match guarded(|| oligo[k - 1].verif_vectorise_one(&seq)) {
                    Err(p) => st.violate(&panic_sig(&p), p, case),
                    Ok(v) => {
                        let c = cols(k);
                        if v.len() != c.codes.len() {
                            st.violate("unchecked.oligo.len", format!("vector length {} != {}", v.len(), c.codes.len()), case);
                        } else {
                            let s: f64 = v.iter().sum();
                            let w = model::windows(&seq, k).len();
                            if (w == 0 && s != 0.0) || (w > 0 && (s - 1.0).abs() > 1e-9) {
                                st.violate("unchecked.oligo.mass", format!("normalised vector sums to {} for {} windows", s, w), case);
                            }
                        }
                    }
                }
            }
            1 => {
                let k = rng.usize(1, 7);
                let len = gen_len(&mut rng, k, None, 200);
                let (_, seq) = gen_seq_any(&mut rng, len, false);
                let case = Json::obj().set("site", Json::s("composition::oligocgr::seq_to_kmer")).set("k", Json::u(k)).set("seq", Json::bytes(&seq));
                if i % 64 == 1 {
                    note_current_case(ctx, &case);
                }
                st.case(seq.len() >= k, hash_bytes(&seq) ^ mix(k as u64 + 100));
                st.class("oligocgr.seq_to_kmer");
                match guarded(|| ocgr[k - 1].verif_vectorise_one(&seq)) {
                    Err(p) => st.violate(&panic_sig(&p), p, case),
                    Ok(Err(e)) => st.violate("unchecked.oligocgr.err", e, case),
                    Ok(Ok(v)) => {
                        if v.len() != cols(k).codes.len() {
                            st.violate("unchecked.oligocgr.len", format!("{} triples != {}", v.len(), cols(k).codes.len()), case);
                        }
                    }
                }
            }
            _ => {
                let k = rng.usize(1, 31);
                let bin_count = if rng.chance(1, 4) { 1 } else { rng.usize(1, 40) };
                let bin_size = if rng.chance(1, 10) { usize::MAX / 2 } else { rng.usize(1, 300) };
                let len = gen_len(&mut rng, k, None, 150);
                let (_, seq) = gen_seq_any(&mut rng, len, false);
                // multiplicities: extreme values included
                let mut counts: HashMap<u64, u32> = HashMap::new();
                let mut refc: BTreeMap<u64, u64> = BTreeMap::new();
                for c in model::canonical_stream(&seq, k) {
                    if !refc.contains_key(&c) {
                        let mult = match rng.below(5) {
                            0 => u32::MAX,
                            1 => 0,
                            2 => rng.range(0, 10) as u32,
                            3 => (bin_size.min(1 << 20) * rng.usize(1, bin_count + 1)) as u32,
                            _ => rng.next_u64() as u32,
                        };
                        if mult > 0 || rng.chance(1, 2) {
                            counts.insert(c, mult);
                        }
                        refc.insert(c, mult as u64);
                    }
                }
                let case = Json::obj()
                    .set("site", Json::s("coverage::vectorise_one"))
                    .set("k", Json::u(k))
                    .set("bin_size", Json::Int(bin_size as i128))
                    .set("bin_count", Json::u(bin_count))
                    .set("seq", Json::bytes(&seq));
                if i % 64 == 2 {
                    note_current_case(ctx, &case);
                }
                st.case(seq.len() >= k, hash_bytes(&seq) ^ mix(k as u64 + 200) ^ mix(bin_count as u64));
                st.class("coverage.vectorise_one");
                let r = guarded(|| {
                    let mut cov = CovComputer::new("u.fa".into(), "u".into(), k, bin_size, bin_count);
                    cov.set_norm(false);
                    cov.verif_vectorise_one(&seq, &counts)
                });
                match r {
                    Err(p) => st.violate(&panic_sig(&p), p, case),
                    Ok(v) => {
                        let mut h = vec![0u64; bin_count];
                        for c in model::canonical_stream(&seq, k) {
                            let b = ((refc[&c] / bin_size as u64) as usize).min(bin_count - 1);
                            h[b] += 1;
                        }
                        if v.len() != bin_count || v.iter().zip(h.iter()).any(|(a, b)| *a != *b as f64) {
                            st.violate("unchecked.cov.hist", format!("histogram {:?} != expected {:?}", &v[..v.len().min(8)], &h[..h.len().min(8)]), case);
                        }
                    }
                }
            }
        }
        if i % 20_011 == 5 {
            st.sample(Json::obj().set("site", Json::u(site as usize)).set("i", Json::Int(i as i128)));
        }
    }
    st
}
