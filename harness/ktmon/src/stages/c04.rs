//! C04 — oligo vector of a record counts its canonical k-mers, raw or normalised.
//! Observation points: per-record routine (hook wrapper), files written by the public
//! OligoComputer::vectorise(), the CLI `comp oligo [-c]`.  (Python binding: py stage.)

use super::oligo::*;
use crate::common::*;
use crate::util::*;
use composition::oligo::OligoComputer;
use refmodel::gen::{gen_len, gen_records, gen_seq_any};
use refmodel::json::Json;
use refmodel::model;
use refmodel::rng::{hash_bytes, mix, Rng};

fn swapcase(s: &[u8]) -> Vec<u8> {
    s.iter()
        .map(|&b| if b.is_ascii_uppercase() { b.to_ascii_lowercase() } else if b.is_ascii_lowercase() { b.to_ascii_uppercase() } else { b })
        .collect()
}

fn t_to_u(s: &[u8]) -> Vec<u8> {
    s.iter().map(|&b| match b { b'T' => b'U', b't' => b'u', o => o }).collect()
}

/// per-record routine vs reference counts + invariances
pub fn one(ctx: &Ctx) -> Stats {
    let kmax = 8usize;
    let comps: Vec<(OligoComputer, OligoComputer)> = (1..=kmax)
        .map(|k| {
            let n = OligoComputer::new("unused.fa".into(), "unused.out".into(), k);
            let mut r = OligoComputer::new("unused.fa".into(), "unused.out".into(), k);
            r.set_norm(false);
            (n, r)
        })
        .collect();
    let n = ctx.n(40_000, 1_500_000);
    par_cases(ctx, n, |idx, st| {
        let mut rng = Rng::keyed(ctx.seed, "c04.one", idx);
        let k = (idx % kmax as u64) as usize + 1;
        let maxlen = if rng.chance(1, 10) { 2000 } else { 150 };
        let len = gen_len(&mut rng, k, None, maxlen);
        // the swap-case and T->U invariances are stated for letters: other bytes are ambiguous in
        // every variant as long as the variant map does not turn them into letters (it cannot).
        let (class, seq) = gen_seq_any(&mut rng, len, false);
        let c = cols(k);
        let (counts, total) = model::oligo_counts(&seq, k, &c.codes);
        st.case(total > 0, hash_bytes(&seq) ^ mix(k as u64));
        st.class(class.name());
        if total == 0 {
            st.class("no-valid-window");
        }
        let case = || Json::obj().set("seq", Json::bytes(&seq)).set("k", Json::u(k));
        let (cn, cr) = &comps[k - 1];
        let res = guarded(|| {
            let vn = cn.verif_vectorise_one(&seq);
            let vr = cr.verif_vectorise_one(&seq);
            let variants: Vec<Vec<f64>> = [model::revcomp_text(&seq), swapcase(&seq), t_to_u(&seq)]
                .iter()
                .map(|s| cn.verif_vectorise_one(s))
                .collect();
            (vn, vr, variants)
        });
        let (vn, vr, variants) = match res {
            Ok(v) => v,
            Err(p) => {
                st.violate(&panic_sig(&p), format!("per-record routine panicked: {}", p), case());
                return;
            }
        };
        if vn.len() != c.codes.len() || vr.len() != c.codes.len() {
            st.violate("oligo.fieldcount", format!("vector has {} entries, {} canonical {}-mers exist", vn.len(), c.codes.len(), k), case());
            return;
        }
        for j in 0..c.codes.len() {
            if vr[j] != counts[j] as f64 {
                st.violate(
                    "oligo.value.count",
                    format!("column {} ({}): raw value {} but the record has {} such windows", j, c.names[j], vr[j], counts[j]),
                    case(),
                );
                return;
            }
            if !frac_matches(vn[j], counts[j], total) {
                st.violate(
                    "oligo.value.norm",
                    format!("column {} ({}): normalised value {} but count/total = {}/{}", j, c.names[j], vn[j], counts[j], total),
                    case(),
                );
                return;
            }
        }
        for (name, v) in ["revcomp", "swapcase", "T->U"].iter().zip(variants.iter()) {
            if v != &vn {
                st.violate(
                    &format!("oligo.invariance.{}", name),
                    format!("vector changes under {} of the record", name),
                    case(),
                );
                return;
            }
        }
        if idx % 7919 == 1 {
            st.sample(case().set("class", Json::s(class.name())).set("valid_windows", Json::Int(total as i128)));
        }
    })
}

/// files written by the public vectorise(): normalised -> mapped writer, counts -> batch writer
pub fn file(ctx: &Ctx) -> Stats {
    let n = ctx.n(400, 12_000);
    par_cases(ctx, n, |idx, st| {
        let mut rng = Rng::keyed(ctx.seed, "c04.file", idx);
        let kmax = if rng.chance(1, 8) { 8 } else { 6 };
        let k = rng.usize(1, kmax);
        let nrec = rng.usize(1, 50);
        let mut recs = gen_records(&mut rng, nrec, k, None, 120, 0);
        if idx % 25 == 3 {
            // a column count that is exactly a power of ten (or one off): number-formatting widths of the counts mode,
            // 6-decimal edges of the normalised mode
            let j = rng.usize(1, 5);
            let c = 10usize.pow(j as u32) + [0usize, 0, 1][rng.below(3) as usize] - if rng.chance(1, 4) { 1 } else { 0 };
            let b = *rng.pick(b"ACGT");
            let at = rng.usize(0, recs.len() - 1);
            let mut seq = vec![b; c + k - 1];
            if rng.chance(1, 2) {
                // plus a few other windows so that the normalised value is not exactly 1
                seq.extend_from_slice(b"NACGTTGCA");
            }
            recs[at].seq = seq;
            st.class("column count 10^j (+-1)");
        }
        // invariance at file level: append the reverse complement, the case-swapped and the T->U variant of one
        // record; their rows must be byte-identical to that record's row
        let src = rng.usize(0, recs.len() - 1);
        let variants = [model::revcomp_text(&recs[src].seq), swapcase(&recs[src].seq), t_to_u(&recs[src].seq)];
        for (j, v) in variants.iter().enumerate() {
            recs.push(refmodel::gen::Rec { id: format!("variant{}", j), desc: None, seq: v.clone() });
        }
        let cfg = OligoCfg {
            k,
            threads: rng.usize(1, 4),
            memory: *rng.pick(&[1usize, 100, 4 << 30]),
            header: rng.chance(1, 3),
            delim: rng.pick(&[" ", ",", "\t"]).to_string(),
            norm: rng.chance(1, 2),
            writer: Writer::Public,
        };
        let sc = Scratch::new(ctx, "c04f");
        // every third file arrives in another container the reader accepts (wrapped, CRLF, FASTQ, multi-member gzip)
        let fastq_ok = recs.iter().all(|r| !r.seq.is_empty());
        let cont = match idx % 3 {
            0 => match rng.below(4) {
                0 => Container::FastaWrapped(rng.usize(1, 70)),
                1 => Container::FastaCrlf,
                2 if fastq_ok => Container::Fastq,
                3 if fastq_ok => Container::FastqWrapped(rng.usize(1, 50)),
                _ => Container::FastaSingle,
            },
            _ => Container::FastaSingle,
        };
        let gz = if idx % 3 == 0 && rng.chance(1, 2) { Some(refmodel::ser::GzLayout::Multi(rng.usize(2, 5))) } else { None };
        if idx % 3 == 0 {
            st.class("container variant");
        }
        let inp = write_input(&sc, "in", &recs, &cont, gz.as_ref(), &mut rng);
        let outp = sc.path("out.kmers");
        let case = || Json::obj().set("cfg", cfg.json()).set("records", recs_json(&recs));
        let total_windows: usize = recs.iter().map(|r| model::windows(&r.seq, k).len()).sum();
        st.case(total_windows > 0, hash_bytes(&std::fs::read(&inp).unwrap_or_default()) ^ mix(idx));
        st.class(if cfg.norm { "normalised(mapped writer)" } else { "counts(batch writer)" });
        let run = run_oligo(&inp, &outp, &cfg, None);
        match run.result {
            Err(p) => {
                st.violate(&panic_sig(&p), format!("vectorise() panicked: {}", p), case());
                return;
            }
            Ok(Err(e)) => {
                st.violate("oligo.error", format!("vectorise() returned Err({})", e), case());
                return;
            }
            Ok(Ok(())) => {}
        }
        let data = run.output.unwrap_or_default();
        if let Err((sig, msg)) = check_rows(&data, &recs, &cfg) {
            st.violate(&sig, msg, case());
            return;
        }
        {
            let ls = lines(&data);
            let off = if cfg.header { 1 } else { 0 };
            let n = recs.len();
            for j in 0..3 {
                if ls.get(off + n - 3 + j) != ls.get(off + src) {
                    st.violate(
                        &format!("oligo.invariance.row.{}", ["revcomp", "swapcase", "T->U"][j]),
                        format!("the row of the {} variant of record {} differs from that record's row", ["reverse-complemented", "case-swapped", "T->U"][j], src),
                        case(),
                    );
                    return;
                }
            }
        }
        if idx % 131 == 0 {
            st.sample(Json::obj().set("cfg", cfg.json()).set("records", Json::u(recs.len())).set("first_record", Json::bytes(&recs[0].seq)));
        }
    })
}

/// the real binary: `kmertools comp oligo -i F -o O -k K [-c] [-H] [-p preset]`
pub fn cli(ctx: &Ctx) -> Stats {
    let n = ctx.n(60, 1500);
    par_cases(ctx, n, |idx, st| {
        let mut rng = Rng::keyed(ctx.seed, "c04.cli", idx);
        let k = rng.usize(3, 7);
        let nrec = rng.usize(1, 30);
        let recs = gen_records(&mut rng, nrec, k, None, 200, 0);
        let (preset, delim) = *rng.pick(&[("spc", " "), ("csv", ","), ("tsv", "\t")]);
        let cfg = OligoCfg {
            k,
            threads: rng.usize(1, 8),
            memory: 4 << 30,
            header: rng.chance(1, 3),
            delim: delim.to_string(),
            norm: rng.chance(1, 2),
            writer: Writer::Public,
        };
        let sc = Scratch::new(ctx, "c04c");
        let inp = write_input(&sc, "in", &recs, &Container::FastaSingle, None, &mut rng);
        let outp = sc.path("out.kmers");
        let mut args = sv(&["comp", "oligo", "-i", &inp, "-o", &outp, "-k", &k.to_string(), "-p", preset, "-t", &cfg.threads.to_string()]);
        if !cfg.norm {
            args.push("-c".into());
        }
        if cfg.header {
            args.push("-H".into());
        }
        let case = || Json::obj().set("argv", Json::s(args.join(" "))).set("records", recs_json(&recs));
        let total_windows: usize = recs.iter().map(|r| model::windows(&r.seq, k).len()).sum();
        st.case(total_windows > 0, mix(idx) ^ hash_bytes(args.join(" ").as_bytes()));
        let out = run_cli(ctx, &args, None, &CliLimits::default());
        if out.timed_out && !out.cpu_exceeded && !out.stalled {
            st.inconclusive(format!("CLI watchdog: {}", out.describe()));
            return;
        }
        if !out.ok() {
            st.violate("cli.oligo.exit", format!("comp oligo failed: {}", out.describe()), case());
            return;
        }
        let data = std::fs::read(&outp).unwrap_or_default();
        if let Err((sig, msg)) = check_rows(&data, &recs, &cfg) {
            st.violate(&format!("cli.{}", sig), msg, case());
        } else if idx % 17 == 0 {
            st.sample(Json::obj().set("argv", Json::s(args[..].join(" "))).set("records", Json::u(recs.len())));
        }
    })
}

/// very long records: more than 2^24 windows of one canonical k-mer / in total (accumulator width).
/// Content is periodic so the expected counts are analytic (windows at i = r mod p are equal).
pub fn large(ctx: &Ctx) -> Stats {
    let mut st = Stats::new();
    let n = ctx.pick(3u64, 10u64);
    for i in 0..n {
        if ctx.expired() {
            st.truncated = true;
            break;
        }
        let mut rng = Rng::keyed(ctx.seed, "c04.large", i);
        let k = rng.usize(1, 4);
        let units: [&[u8]; 3] = [b"A", b"AC", b"AAG"];
        let unit = units[(i % 3) as usize];
        // a bit more than 2^24 windows; thorough also 2^25+
        let len = (1usize << if ctx.tier == Tier::Thorough && i % 2 == 1 { 25 } else { 24 }) + rng.usize(1000, 600_000);
        let mut seq: Vec<u8> = (0..len).map(|j| unit[j % unit.len()]).collect();
        // a short different tail so that a second column is populated as well
        let tail = rng.usize(0, 50_000);
        seq.extend(std::iter::repeat(b'C').take(tail));
        let c = cols(k);
        // analytic counts: enumerate window classes of the periodic part + explicit windows around the junction and tail
        let mut exp = vec![0u64; c.codes.len()];
        let idx: std::collections::HashMap<u64, usize> = c.codes.iter().enumerate().map(|(a, b)| (*b, a)).collect();
        let p = unit.len();
        let periodic_last = len - k; // last window start fully inside the periodic part
        for r in 0..p {
            let text: Vec<u8> = (0..k).map(|j| unit[(r + j) % p]).collect();
            let code = model::canonical(model::encode(&text).unwrap() as u64, k);
            exp[idx[&code]] += ((periodic_last - r) / p + 1) as u64;
        }
        for s in (len - k + 1)..=(seq.len() - k) {
            let code = model::canonical(model::encode(&seq[s..s + k]).unwrap() as u64, k);
            exp[idx[&code]] += 1;
        }
        let total: u64 = exp.iter().sum();
        st.case(true, mix(i) ^ mix(len as u64));
        st.class(&format!("windows>=2^{}", if len >= 1 << 25 { 25 } else { 24 }));
        let case = || Json::obj().set("unit", Json::bytes(unit)).set("periodic_len", Json::u(len)).set("C_tail", Json::u(tail)).set("k", Json::u(k)).set("total_windows", Json::Int(total as i128));
        let r = guarded(|| {
            let cn = OligoComputer::new("u.fa".into(), "u.out".into(), k);
            let mut cr = OligoComputer::new("u.fa".into(), "u.out".into(), k);
            cr.set_norm(false);
            (cn.verif_vectorise_one(&seq), cr.verif_vectorise_one(&seq))
        });
        match r {
            Err(p) => st.violate(&panic_sig(&p), p, case()),
            Ok((vn, vr)) => {
                for j in 0..c.codes.len() {
                    if vr[j] != exp[j] as f64 {
                        st.violate("oligo.value.count:large", format!("column {} ({}): raw value {} but the record has {} such windows", j, c.names[j], vr[j], exp[j]), case());
                        break;
                    }
                    if !frac_matches(vn[j], exp[j], total) {
                        st.violate("oligo.value.norm:large", format!("column {} ({}): normalised value {} but count/total = {}/{}", j, c.names[j], vn[j], exp[j], total), case());
                        break;
                    }
                }
            }
        }
        st.sample(case());
    }
    st
}

fn clean_segments_count(seq: &[u8], k: usize) -> u64 {
    // number of valid k-windows of a sequence over {A, N}: sum over clean segments of max(0, len - k + 1)
    let mut total = 0u64;
    let mut run = 0usize;
    for &b in seq.iter().chain(std::iter::once(&b'N')) {
        if b == b'N' {
            if run >= k {
                total += (run - k + 1) as u64;
            }
            run = 0;
        } else {
            run += 1;
        }
    }
    total
}

/// records whose length sits at / around powers of two plus k ("block seams" of any chunked processing), with
/// ambiguous bytes right at those offsets; homopolymer content so that the expected count is analytic
pub fn seams(ctx: &Ctx) -> Stats {
    let mut st = Stats::new();
    let blocks: &[usize] = if ctx.tier == Tier::Quick { &[1 << 16, 1 << 20] } else { &[1 << 16, 1 << 20, 1 << 22, 1 << 24] };
    let mut i = 0u64;
    for &blk in blocks {
        for k in [1usize, 3, 4, 7] {
            for delta in [0isize, -1, 1, k as isize - 1, k as isize, k as isize + 1] {
                i += 1;
                let mult = 1 + (i as usize % 2);
                let len = (blk * mult) as isize + delta;
                if len <= 0 {
                    continue;
                }
                let mut seq = vec![b'A'; len as usize];
                // every other case: an ambiguous byte just before / at / after a block boundary
                let mut n_pos = Vec::new();
                if i % 2 == 0 {
                    for off in [blk as isize - 2, blk as isize - 1, blk as isize, (blk * mult) as isize - k as isize] {
                        if off > 0 && (off as usize) < seq.len() && (i as isize + off) % 3 != 0 {
                            seq[off as usize] = b'N';
                            n_pos.push(off as usize);
                        }
                    }
                }
                let exp = clean_segments_count(&seq, k);
                st.case(true, mix(i) ^ mix(len as u64));
                st.class(&format!("block=2^{}", blk.trailing_zeros()));
                let case = || Json::obj().set("layout", Json::s(format!("A*{} with N at {:?}", len, n_pos))).set("k", Json::u(k)).set("expected_windows", Json::Int(exp as i128));
                note_current_case(ctx, &case());
                let c = cols(k);
                let r = guarded(|| {
                    let mut cr = OligoComputer::new("u.fa".into(), "u.out".into(), k);
                    cr.set_norm(false);
                    let mut c2 = OligoComputer::new("u.fa".into(), "u.out".into(), k);
                    c2.set_norm(false);
                    c2.set_threads(3);
                    (cr.verif_vectorise_one(&seq), c2.verif_vectorise_one(&seq))
                });
                match r {
                    Err(p) => st.violate(&panic_sig(&p), p, case()),
                    Ok((v, v3)) => {
                        // all windows are poly-A: canonical code 0 is column 0
                        let sum: f64 = v.iter().sum();
                        if v[0] != exp as f64 || sum != exp as f64 || v3 != v {
                            st.violate("oligo.value.count:seam", format!("poly-A column holds {} (sum {}), expected {} windows; threads=3 agrees: {}", v[0], sum, exp, v3 == v), case());
                        }
                        let _ = c;
                    }
                }
                if i % 11 == 0 {
                    st.sample(case());
                }
            }
        }
    }
    st
}

/// the printed rows of a very long record through the *file* API (mapped and batch writer): frequencies
/// between 5e-7 and 1e-6 must round to 0.000001, ties and values just below/above the 6th decimal
pub fn largefile(ctx: &Ctx) -> Stats {
    let mut st = Stats::new();
    let n = ctx.pick(3u64, 12u64);
    for i in 0..n {
        if ctx.expired() {
            st.truncated = true;
            break;
        }
        let mut rng = Rng::keyed(ctx.seed, "c04.largefile", i);
        let k = rng.usize(2, 4);
        // poly-A body with a few rare k-mers whose frequency is steered to interesting places around the
        // 6th decimal: just above the rounding tie at 5e-7, in the middle of [5e-7, 1e-6), just below 1e-6,
        // around 1.5e-6 (0.000001 vs 0.000002)
        let rare = rng.usize(1, 3);
        let targets = [5.05e-7f64, 7.0e-7, 9.8e-7, 1.45e-6, 1.55e-6, 4.9e-7];
        let target = targets[(i as usize + (ctx.seed as usize)) % targets.len()];
        let len = ((rare as f64 / target).round() as usize).clamp(400_000, 6_500_000);
        let mut seq = vec![b'A'; len];
        for j in 0..rare {
            let p = rng.usize(k, len - 2 * k - 1) / (rare + 1) * (j + 1);
            seq[p] = b'C';
        }
        if rng.chance(1, 2) {
            let l = seq.len();
            seq[l - 1] = b'G';
        }
        let recs = vec![
            refmodel::gen::Rec { id: "small".into(), desc: None, seq: b"ACGTTGCAAC".to_vec() },
            refmodel::gen::Rec { id: "huge".into(), desc: None, seq },
            refmodel::gen::Rec { id: "tail".into(), desc: None, seq: b"GGGGCC".to_vec() },
        ];
        let sc = Scratch::new(ctx, "c04L");
        let inp = write_input(&sc, "in", &recs, &Container::FastaSingle, None, &mut rng);
        for writer in [Writer::Public, Writer::Batch] {
            let cfg = OligoCfg { k, threads: rng.usize(1, 4), memory: 4 << 30, header: false, delim: " ".into(), norm: true, writer };
            st.case(true, mix(i) ^ mix(len as u64) ^ mix(writer as u64));
            st.class(&format!("writer={:?}", writer));
            let case = || Json::obj().set("cfg", cfg.json()).set("layout", Json::s(format!("poly-A record of {} bases with {} isolated C", len, rare)));
            let run = run_oligo(&inp, &sc.path("out.kmers"), &cfg, None);
            match run.result {
                Err(p) => st.violate(&panic_sig(&p), p, case()),
                Ok(Err(e)) => st.violate("oligo.error", e, case()),
                Ok(Ok(())) => {
                    if let Err((sig, msg)) = check_rows(&run.output.unwrap_or_default(), &recs, &cfg) {
                        st.violate(&format!("{}:largefile", sig), msg, case());
                    }
                }
            }
        }
        st.sample(Json::obj().set("k", Json::u(k)).set("huge_record_bases", Json::u(len)).set("rare_kmers", Json::u(rare)));
    }
    st
}
