//! C06 — reader returns every record once, in order, exact bases, for all containers.
//! Oracle: the generator's own record list (the file is derived from it).

use crate::common::*;
use crate::util::*;
use ktio::seq::{get_reader, SeqFormat, Sequences};
use refmodel::gen::{gen_desc, gen_id, gen_len, gen_seq_any, Rec};
use refmodel::json::Json;
use refmodel::rng::{hash_bytes, mix, Rng};
use refmodel::ser::{self, GzLayout, SerOpts};

fn gen_recs(rng: &mut Rng, fastq: bool) -> Vec<Rec> {
    let n = match rng.below(10) {
        0 => 0,
        1 => 1,
        2 => rng.usize(100, 300),
        _ => rng.usize(1, 40),
    };
    (0..n)
        .map(|i| {
            let len = match rng.below(14) {
                0 => 0,
                1 => rng.usize(1000, 5000),
                // lengths at and around typical reader buffer sizes (a line ending exactly at a buffer boundary)
                2 => *rng.pick(&[8190usize, 8191, 8192, 8193, 16383, 16384, 65535, 65536, 65537]),
                _ => gen_len(rng, 5, None, 300),
            };
            let len = if fastq { len.max(1) } else { len };
            let (_, seq) = gen_seq_any(rng, len, true);
            Rec { id: gen_id(rng, i), desc: gen_desc(rng), seq }
        })
        .collect()
}

struct FileCase {
    recs: Vec<Rec>,
    fastq: bool,
    opts: SerOpts,
    gz: Option<GzLayout>,
    suffix: String,
}

impl FileCase {
    fn describe(&self) -> String {
        format!(
            "{} {} {} suffix=.{}",
            if self.fastq { "FASTQ" } else { "FASTA" },
            self.opts.describe(),
            self.gz.as_ref().map_or("plain".to_string(), |g| g.describe()),
            self.suffix
        )
    }
    fn json(&self) -> Json {
        Json::obj()
            .set("layout", Json::s(self.describe()))
            .set("n_records", Json::u(self.recs.len()))
            .set(
                "records",
                Json::Arr(
                    self.recs
                        .iter()
                        .take(30)
                        .map(|r| Json::obj().set("id", Json::s(r.id.clone())).set("desc", r.desc.clone().map_or(Json::Null, Json::s)).set("seq", Json::bytes(&r.seq[..r.seq.len().min(400)])).set("len", Json::u(r.seq.len())))
                        .collect(),
                ),
            )
    }
}

fn gen_file_case(rng: &mut Rng) -> FileCase {
    let fastq = rng.chance(1, 3);
    let recs = gen_recs(rng, fastq);
    let mut opts = SerOpts::random(rng);
    if fastq && !rng.chance(1, 4) {
        // three in four FASTQ files are plain 4-line; the rest wrap sequence and quality lines
        opts.wrap = None;
    }
    let gz = match rng.below(7) {
        0 => Some(GzLayout::Single(0)),
        1 => Some(GzLayout::Single(6)),
        2 => Some(GzLayout::Multi(rng.usize(2, 8))),
        3 => Some(GzLayout::Bgzf),
        _ => None,
    };
    let base = if fastq { *rng.pick(&["fq", "fastq"]) } else { *rng.pick(&["fa", "fasta", "fna"]) };
    let suffix = if gz.is_some() { format!("{}.gz", base) } else { base.to_string() };
    FileCase { recs, fastq, opts, gz, suffix }
}

fn materialise(fc: &FileCase, sc: &Scratch, rng: &mut Rng) -> String {
    let raw = if fc.fastq { ser::to_fastq(&fc.recs, &fc.opts) } else { ser::to_fasta(&fc.recs, &fc.opts) };
    let data = match &fc.gz {
        Some(l) => ser::gzip(&raw, l, rng),
        None => raw,
    };
    sc.write(&format!("input.{}", fc.suffix), &data)
}

/// monitor for one file
fn check_file(path: &str, fc: &FileCase) -> Result<(), (String, String)> {
    let gz_multi = matches!(fc.gz, Some(GzLayout::Multi(_)) | Some(GzLayout::Bgzf));
    let fmt = SeqFormat::get(path).ok_or_else(|| ("reader.format_unknown".to_string(), format!("suffix .{} not recognised", fc.suffix)))?;
    let is_fq = matches!(fmt, SeqFormat::Fastq);
    if is_fq != fc.fastq {
        return Err(("reader.format_misclassified".into(), format!("suffix .{} classified as {:?}", fc.suffix, fmt)));
    }
    let got = guarded(|| {
        let reader = get_reader(path).unwrap();
        let seqs = Sequences::new(fmt, reader).unwrap();
        let mut v = Vec::new();
        for s in seqs {
            v.push((s.n, s.id, s.seq));
        }
        let reader = get_reader(path).unwrap();
        let stats = Sequences::seq_stats(fmt, reader);
        (v, stats.seq_count, stats.total_length)
    });
    let (got, cnt, total) = match got {
        Ok(g) => g,
        Err(p) => return Err((panic_sig(&p), format!("reader panicked: {}", p))),
    };
    let suffix_sig = |base: &str| if gz_multi { format!("{}:gz.multimember", base) } else { base.to_string() };
    if got.len() != fc.recs.len() {
        let prefix_ok = got.iter().zip(fc.recs.iter()).all(|(g, r)| g.1 == r.id);
        let sig = if gz_multi && got.len() < fc.recs.len() && prefix_ok { "reader.gz.multimember".to_string() } else { suffix_sig("reader.record_count") };
        return Err((sig, format!("iterator delivered {} records, file holds {}", got.len(), fc.recs.len())));
    }
    for (i, (g, r)) in got.iter().zip(fc.recs.iter()).enumerate() {
        if g.0 != i {
            return Err(("reader.numbering".into(), format!("record {} is numbered {}", i, g.0)));
        }
        if g.1 != r.id {
            return Err(("reader.id".into(), format!("record {}: id {:?}, header's first word is {:?}", i, g.1, r.id)));
        }
        if g.2 != r.seq {
            let sig = if gz_multi && i + 1 == got.len() && r.seq.starts_with(&g.2) { "reader.gz.multimember".to_string() } else { "reader.bases".to_string() };
            return Err((sig, format!("record {} ({}): {} bases delivered, {} in the file; first difference at {:?}", i, r.id, g.2.len(), r.seq.len(), g.2.iter().zip(r.seq.iter()).position(|(a, b)| a != b))));
        }
    }
    let exp_total: usize = fc.recs.iter().map(|r| r.seq.len()).sum();
    if cnt != fc.recs.len() || total != exp_total {
        return Err((suffix_sig("reader.stats"), format!("seq_stats = ({} records, {} bases), iteration delivers ({}, {})", cnt, total, fc.recs.len(), exp_total)));
    }
    // the adaptor sweep re-reads the file ~16 times: always for small files, one in four of the bigger ones
    let bytes: usize = exp_total + 40 * fc.recs.len();
    if bytes <= 20_000 || (exp_total + fc.recs.len()) % 4 == 0 {
        check_protocol(path, fmt, fc)
    } else {
        Ok(())
    }
}

/// "every record exactly once, in file order" whatever std adaptor consumes the iterator: after skip / nth / step_by
/// the delivered records must be the expected ones with their file ordinals; count / last agree; an exhausted
/// reader stays exhausted.
fn check_protocol(path: &str, fmt: SeqFormat, fc: &FileCase) -> Result<(), (String, String)> {
    let n = fc.recs.len();
    let open = || Sequences::new(fmt, get_reader(path).unwrap()).unwrap();
    let key = |s: &ktio::seq::Sequence| (s.n, s.id.clone(), s.seq.len());
    let want = |i: usize| (i, fc.recs[i].id.clone(), fc.recs[i].seq.len());
    let r = guarded(|| {
        for j in [1usize, 2, n / 2, n.saturating_sub(1), n, n + 1] {
            let got: Vec<_> = open().skip(j).map(|s| key(&s)).collect();
            let exp: Vec<_> = (j.min(n)..n).map(want).collect();
            if got != exp {
                return Some(("reader.protocol.skip".to_string(), format!("skip({}) delivers {} records starting with {:?}; expected {} starting with {:?}", j, got.len(), got.first(), exp.len(), exp.first())));
            }
        }
        for j in [0usize, 1, n / 3, n.saturating_sub(1), n] {
            let mut it = open();
            let got = it.nth(j).map(|s| key(&s));
            let exp = if j < n { Some(want(j)) } else { None };
            if got != exp {
                return Some(("reader.protocol.nth".to_string(), format!("nth({}) = {:?}, expected {:?}", j, got, exp)));
            }
            let after = it.next().map(|s| key(&s));
            let exp_after = if j + 1 < n { Some(want(j + 1)) } else { None };
            if after != exp_after {
                return Some(("reader.protocol.next_after_nth".to_string(), format!("next() after nth({}) = {:?}, expected {:?}", j, after, exp_after)));
            }
        }
        let got: Vec<_> = open().step_by(3).map(|s| key(&s)).collect();
        let exp: Vec<_> = (0..n).step_by(3).map(want).collect();
        if got != exp {
            return Some(("reader.protocol.step_by".to_string(), format!("step_by(3) delivers {:?}..., expected {:?}...", got.iter().take(3).collect::<Vec<_>>(), exp.iter().take(3).collect::<Vec<_>>())));
        }
        // (count() is deliberately unimplemented by the reader — seq_stats is the documented way — and is not called)
        if open().last().map(|s| key(&s)) != n.checked_sub(1).map(want) {
            return Some(("reader.protocol.last".to_string(), "last() is not the last record".to_string()));
        }
        let mut it = open();
        let mut folded = 0usize;
        if n >= 2 {
            it.next();
            folded = it.fold(0usize, |a, s| a + s.n);
            if folded != (1..n).sum::<usize>() {
                return Some(("reader.protocol.fold_after_next".to_string(), format!("ordinals seen by fold() after one next() sum to {}, expected {}", folded, (1..n).sum::<usize>())));
            }
        }
        let _ = folded;
        let mut it = open();
        while it.next().is_some() {}
        if it.next().is_some() {
            return Some(("reader.protocol.after_end".to_string(), "an exhausted reader delivered another record".to_string()));
        }
        None
    });
    match r {
        Ok(None) => Ok(()),
        Ok(Some(e)) => Err(e),
        Err(p) => Err((panic_sig(&p), format!("reader panicked under an iterator adaptor: {}", p))),
    }
}

pub fn files(ctx: &Ctx) -> Stats {
    let n = ctx.n(600, 20_000);
    par_cases(ctx, n, |idx, st| {
        let mut rng = Rng::keyed(ctx.seed, "c06.files", idx);
        let fc = gen_file_case(&mut rng);
        let sc = Scratch::new(ctx, "c06");
        let path = materialise(&fc, &sc, &mut rng);
        st.case(!fc.recs.is_empty(), mix(idx) ^ hash_bytes(&std::fs::read(&path).unwrap_or_default()));
        st.class(if fc.fastq { "fastq" } else { "fasta" });
        st.class(&fc.gz.as_ref().map_or("plain".to_string(), |g| g.describe().split('(').next().unwrap().to_string()));
        if fc.opts.crlf {
            st.class("crlf");
        }
        if !fc.opts.final_newline {
            st.class("no-final-newline");
        }
        if fc.opts.wrap.is_some() && !fc.fastq {
            st.class("wrapped");
        }
        if fc.recs.iter().any(|r| r.seq.is_empty()) {
            st.class("has-record-without-bases");
        }
        if let Err((sig, msg)) = check_file(&path, &fc) {
            st.violate(&sig, format!("[{}] {}", fc.describe(), msg), fc.json());
        } else if idx % 4 == 0 {
            // the same path rewritten with other records (same layout and suffix) and read again in this process
            let mut fc2 = gen_file_case(&mut rng);
            fc2.fastq = fc.fastq;
            fc2.gz = fc.gz.clone();
            fc2.suffix = fc.suffix.clone();
            if fc2.fastq {
                for r in fc2.recs.iter_mut() {
                    if r.seq.is_empty() {
                        r.seq = b"ACGT".to_vec();
                    }
                }
            }
            let path2 = materialise(&fc2, &sc, &mut rng);
            st.class("same-path-rewritten");
            if path2 != path {
                st.inconclusive("rewritten file got another path".into());
            } else if let Err((sig, msg)) = check_file(&path2, &fc2) {
                st.violate(&format!("{}:rewritten_path", sig), format!("[{}] after rewriting the same path: {}", fc2.describe(), msg), fc2.json());
            }
        }
        if idx % 211 == 0 {
            st.sample(Json::obj().set("layout", Json::s(fc.describe())).set("records", Json::u(fc.recs.len())).set("total_bases", Json::u(fc.recs.iter().map(|r| r.seq.len()).sum())));
        }
    })
}

/// suffix table of SeqFormat::get
pub fn suffixes(_ctx: &Ctx) -> Stats {
    let mut st = Stats::new();
    let table: &[(&str, Option<bool>)] = &[
        ("x.fa", Some(false)),
        ("x.fasta", Some(false)),
        ("x.fna", Some(false)),
        ("x.fq", Some(true)),
        ("x.fastq", Some(true)),
        ("x.fa.gz", Some(false)),
        ("x.fasta.gz", Some(false)),
        ("x.fna.gz", Some(false)),
        ("x.fq.gz", Some(true)),
        ("x.fastq.gz", Some(true)),
        ("dir.fq/reads.fa", Some(false)),
        ("a.b.c.fastq", Some(true)),
        // only the final suffix (before an optional .gz) decides
        ("SRR390728.fastq.contigs.fa", Some(false)),
        ("x.fq.assembled.fasta.gz", Some(false)),
        ("genome.fa.simulated.fq", Some(true)),
        ("g.fasta.sim.fastq.gz", Some(true)),
        ("a.fna.fq", Some(true)),
        ("a.fq.fna", Some(false)),
        ("reads.gz.fa", Some(false)),
    ];
    for (i, (p, want)) in table.iter().enumerate() {
        st.case(true, i as u64 + 1);
        let got = SeqFormat::get(p).map(|f| matches!(f, SeqFormat::Fastq));
        if got != *want {
            st.violate("reader.format_misclassified", format!("SeqFormat::get({:?}) = {:?}, expected fastq={:?}", p, got, want), Json::obj().set("path", Json::s(*p)));
        }
        st.sample(Json::obj().set("path", Json::s(*p)).set("is_fastq", want.map_or(Json::Null, Json::Bool)));
    }
    st
}

/// row count of a subcommand run on the file (CLI `comp oligo`) == number of records
pub fn cli_rows(ctx: &Ctx) -> Stats {
    let n = ctx.n(25, 600);
    par_cases(ctx, n, |idx, st| {
        let mut rng = Rng::keyed(ctx.seed, "c06.cli_rows", idx);
        let mut fc = gen_file_case(&mut rng);
        if fc.recs.is_empty() {
            fc.recs.push(Rec { id: "only".into(), desc: None, seq: b"ACGTACGT".to_vec() });
        }
        fc.recs.truncate(60);
        let sc = Scratch::new(ctx, "c06c");
        let path = materialise(&fc, &sc, &mut rng);
        let outp = sc.path("out.kmers");
        // "row count of any subcommand run on the file": rotate through the record-oriented subcommands
        let which = idx % 5;
        let (args, result_file) = match which {
            0 => (sv(&["comp", "oligo", "-i", &path, "-o", &outp, "-k", "3"]), outp.clone()),
            1 => (sv(&["comp", "oligo", "-i", &path, "-o", &outp, "-k", "4", "-c"]), outp.clone()),
            2 => (sv(&["comp", "cgr", "-i", &path, "-o", &outp, "-k", "3"]), outp.clone()),
            3 => (sv(&["cov", "-i", &path, "-o", &outp, "-k", "7", "-s", "5", "-c", "5"]), format!("{}/kmers.vectors", outp)),
            _ => (sv(&["min", "-i", &path, "-o", &outp, "-m", "7", "-w", "12", "-p", "s2m"]), outp.clone()),
        };
        st.class(["rows:oligo", "rows:oligo -c", "rows:cgr -k", "rows:cov", "rows:min s2m"][which as usize]);
        st.case(true, mix(idx) ^ hash_bytes(&std::fs::read(&path).unwrap_or_default()));
        let res = run_cli(ctx, &args, None, &CliLimits::default());
        let case = || fc.json().set("argv", Json::s(args.join(" ")));
        if res.timed_out && !res.cpu_exceeded && !res.stalled {
            st.inconclusive(format!("CLI watchdog: {}", res.describe()));
            return;
        }
        if !res.ok() {
            st.violate("cli.reader.exit", format!("[{}] comp oligo failed: {}", fc.describe(), res.describe()), case());
            return;
        }
        let rows = lines(&std::fs::read(&result_file).unwrap_or_default()).len();
        if rows != fc.recs.len() {
            let multi = matches!(fc.gz, Some(GzLayout::Multi(_)) | Some(GzLayout::Bgzf));
            let sig = if multi && rows < fc.recs.len() { "cli.reader.gz.multimember" } else { "cli.reader.rowcount" };
            st.violate(sig, format!("[{}] {} rows for {} records", fc.describe(), rows, fc.recs.len()), case());
        } else if idx % 13 == 0 {
            st.sample(Json::obj().set("layout", Json::s(fc.describe())).set("rows", Json::u(rows)));
        }
    })
}

/// multi-member gzip whose first member has a compressed length of exactly 2^p - 1, 2^p, 2^p + 1 bytes for
/// typical buffer sizes (a member header split across a refill of the underlying reader): stored members make
/// the compressed length controllable
pub fn member_boundaries(ctx: &Ctx) -> Stats {
    use flate2::write::GzEncoder;
    use flate2::Compression;
    use std::io::Write;
    let powers: &[u32] = if ctx.tier == Tier::Quick { &[13, 16, 17, 20] } else { &[12, 13, 15, 16, 17, 18, 20, 21, 22] };
    let mut targets: Vec<usize> = Vec::new();
    for &p in powers {
        for d in [-2isize, -1, 0, 1] {
            targets.push(((1usize << p) as isize + d) as usize);
        }
    }
    let stored = |data: &[u8]| -> Vec<u8> {
        let mut e = GzEncoder::new(Vec::new(), Compression::none());
        e.write_all(data).unwrap();
        e.finish().unwrap()
    };
    let n = targets.len() as u64;
    par_cases(ctx, n, |idx, st| {
        let mut rng = Rng::keyed(ctx.seed, "c06.member_boundaries", idx);
        let target = targets[idx as usize];
        // enough records to fill the target and go on for a while
        let mut recs: Vec<Rec> = Vec::new();
        let mut total = 0usize;
        while total < target + 20_000 {
            let len = rng.usize(20, 400);
            let (_, seq) = gen_seq_any(&mut rng, len, true);
            total += seq.len() + 12;
            recs.push(Rec { id: format!("b{}", recs.len()), desc: None, seq });
        }
        let opts = SerOpts { wrap: Some(80), crlf: false, final_newline: true };
        // (the estimate above can fall short of the serialised size wanted: top up until the text really is long enough)
        while ser::to_fasta(&recs, &opts).len() < target + 10_000 {
            for _ in 0..200 {
                let len = rng.usize(200, 400);
                let (_, seq) = gen_seq_any(&mut rng, len, true);
                recs.push(Rec { id: format!("b{}", recs.len()), desc: None, seq });
            }
        }
        let fc = FileCase { recs, fastq: false, opts, gz: Some(GzLayout::Multi(3)), suffix: "fa.gz".into() };
        let raw = ser::to_fasta(&fc.recs, &fc.opts);
        // find the raw prefix length whose stored member is exactly `target` bytes long
        let mut n1 = target.saturating_sub(40).min(raw.len());
        let mut m1 = stored(&raw[..n1]);
        let mut guard = 0;
        while m1.len() != target && guard < 64 {
            let diff = target as isize - m1.len() as isize;
            n1 = (n1 as isize + diff).max(0) as usize;
            if n1 > raw.len() {
                break;
            }
            m1 = stored(&raw[..n1]);
            guard += 1;
        }
        st.case(true, mix(idx) ^ mix(target as u64));
        if m1.len() != target {
            st.inconclusive(format!("could not craft a first member of exactly {} bytes (got {})", target, m1.len()));
            return;
        }
        let cut2 = n1 + (raw.len() - n1) / 2;
        let mut data = m1;
        data.extend_from_slice(&ser::gzip(&raw[n1..cut2], &GzLayout::Single(6), &mut rng));
        data.extend_from_slice(&stored(&raw[cut2..]));
        let sc = Scratch::new(ctx, "c06b");
        let path = sc.write("input.fa.gz", &data);
        st.class(&format!("first-member-bytes~2^{}", (target as f64).log2().round() as u32));
        if let Err((sig, msg)) = check_file(&path, &fc) {
            st.violate(&format!("{}:member_boundary", sig), format!("first gzip member is exactly {} bytes long: {}", target, msg), fc.json().set("first_member_compressed_bytes", Json::u(target)));
        }
        if idx % 5 == 0 {
            st.sample(Json::obj().set("first_member_compressed_bytes", Json::u(target)).set("members", Json::u(3)).set("records", Json::u(fc.recs.len())));
        }
    })
}
