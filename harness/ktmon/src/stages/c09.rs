//! C09 — minimiser iterator emits exactly the maximal runs of same-minimiser windows.
//! C18 — minimiser+k-mers iterator agrees with the plain one and conserves all w-mers.
//! Oracle: brute force over all m-mers of every clean w-window (refmodel::model::minimiser_runs).

use crate::common::*;
use kmer::kmer_minimisers::KmerMinimiserGenerator;
use kmer::minimiser::MinimiserGenerator;
use refmodel::gen::{gen_len, gen_seq, gen_seq_any, SeqClass};
use refmodel::json::{parse_bytes, Json};
use refmodel::model;
use refmodel::rng::{hash_bytes, mix, Rng};

fn case_json(seq: &[u8], w: usize, m: usize) -> Json {
    Json::obj().set("seq", Json::bytes(seq)).set("w", Json::u(w)).set("m", Json::u(m))
}

fn runs_json(r: &[(u64, usize, usize)], m: usize) -> Json {
    Json::Arr(
        r.iter()
            .take(12)
            .map(|&(v, s, e)| {
                let t = if v == u64::MAX { "<u64::MAX placeholder>".to_string() } else { model::decode(v, m) };
                Json::s(format!("{}:{}-{}", t, s, e))
            })
            .collect(),
    )
}

/// classify a mismatch into a signature (call site + input class) — DESIGN.md §0
fn classify(got: &[(u64, usize, usize)], exp: &[(u64, usize, usize)], seq: &[u8], w: usize) -> String {
    if got.iter().any(|g| g.0 == u64::MAX) {
        return "minimiser.eos:placeholder".into();
    }
    // everything matches except that trailing expected runs are missing / the last run is extended
    let common = got.iter().zip(exp.iter()).take_while(|(a, b)| a == b).count();
    if common + 1 >= got.len() && exp.len() > got.len() {
        // got = exp prefix (+ one differing last item)
        let tail_ok = match got.get(common) {
            None => true,
            Some(g) => exp.get(common).map_or(false, |e| g.0 == e.0 && g.1 == e.1),
        };
        if tail_ok && exp.last().map_or(false, |e| e.2 == seq.len()) {
            return "minimiser.eos:lastrun".into();
        }
    }
    if seq.len() < w {
        return "minimiser.short".into();
    }
    "minimiser.runs".into()
}

pub fn check_plain(seq: &[u8], w: usize, m: usize) -> Option<(String, String, Json)> {
    let exp = model::minimiser_runs(seq, w, m);
    let got = match guarded(|| MinimiserGenerator::new(seq, w, m).collect::<Vec<_>>()) {
        Ok(g) => g,
        Err(p) => return Some((panic_sig(&p), format!("iterator panicked: {}", p), Json::Null)),
    };
    if got != exp {
        let sig = classify(&got, &exp, seq, w);
        let detail = Json::obj().set("got", runs_json(&got, m)).set("expected", runs_json(&exp, m));
        return Some((
            sig,
            format!("iterator yielded {} runs, brute force gives {}", got.len(), exp.len()),
            detail,
        ));
    }
    None
}

pub fn check_kmers(seq: &[u8], w: usize, m: usize) -> Option<(String, String, Json)> {
    let r = guarded(|| {
        let a: Vec<(u64, usize, usize, Vec<u64>)> = KmerMinimiserGenerator::new(seq, w, m).collect();
        let b: Vec<(u64, usize, usize)> = MinimiserGenerator::new(seq, w, m).collect();
        (a, b)
    });
    let (a, b) = match r {
        Ok(v) => v,
        Err(p) => return Some((panic_sig(&p), format!("iterator panicked: {}", p), Json::Null)),
    };
    let proj: Vec<(u64, usize, usize)> = a.iter().map(|x| (x.0, x.1, x.2)).collect();
    if proj != b {
        let detail = Json::obj().set("with_kmers", runs_json(&proj, m)).set("plain", runs_json(&b, m));
        return Some((
            "kmermin.projection".into(),
            format!("runs of the k-mer-reporting iterator ({}) differ from the plain iterator ({})", proj.len(), b.len()),
            detail,
        ));
    }
    let cat: Vec<u64> = a.iter().flat_map(|x| x.3.iter().copied()).collect();
    let exp = model::canonical_stream(seq, w);
    if cat != exp {
        let sig = if cat.len() < exp.len() && exp.starts_with(&cat) {
            "kmermin.wmers:lost_tail"
        } else if cat.len() < exp.len() {
            "kmermin.wmers:lost"
        } else {
            "kmermin.wmers:mismatch"
        };
        let detail = Json::obj()
            .set("attached_total", Json::u(cat.len()))
            .set("expected_total", Json::u(exp.len()))
            .set("first_difference", Json::u(cat.iter().zip(exp.iter()).position(|(x, y)| x != y).unwrap_or(cat.len().min(exp.len()))));
        return Some((
            sig.into(),
            format!("concatenated k-mer lists have {} canonical w-mers, the input has {}", cat.len(), exp.len()),
            detail,
        ));
    }
    None
}

fn classes_of(st: &mut Stats, seq: &[u8], w: usize, m: usize, exp: &[(u64, usize, usize)]) {
    // evidence classification: ties, change at last base, short tail, ambiguous bytes
    let amb = seq.iter().filter(|&&b| model::base_digit(b).is_none()).count();
    if amb > 0 {
        st.class("has-ambiguous-bytes");
    }
    if seq.len() < w {
        st.class("shorter-than-w");
    }
    if let Some(last) = exp.last() {
        if last.2 == seq.len() && last.2 - last.1 == w && exp.len() > 1 {
            st.class("minimiser-changes-at-last-base");
        }
        if last.2 < seq.len() {
            st.class("trailing-segment-without-window");
        }
    }
    if w == m {
        st.class("w==m");
    }
    if exp.len() >= 3 {
        st.class(">=3 runs");
    }
}

/// iterator protocol beyond next(): fold-based adaptors after some next() calls, count, last, exhaustion
pub fn check_protocol(seq: &[u8], w: usize, m: usize, with_kmers: bool) -> Option<(String, String, Json)> {
    let exp = model::minimiser_runs(seq, w, m);
    let r = guarded(|| {
        let fresh = || -> Box<dyn Iterator<Item = (u64, usize, usize)> + '_> {
            if with_kmers {
                Box::new(KmerMinimiserGenerator::new(seq, w, m).map(|x| (x.0, x.1, x.2)))
            } else {
                Box::new(MinimiserGenerator::new(seq, w, m))
            }
        };
        for j in [1usize, exp.len() / 2, exp.len()] {
            if j > exp.len() {
                continue;
            }
            let mut it = fresh();
            for _ in 0..j {
                it.next();
            }
            let rest: Vec<(u64, usize, usize)> = it.fold(Vec::new(), |mut v, x| {
                v.push(x);
                v
            });
            if rest != exp[j..] {
                return Some(("minimiser.protocol.fold_after_next".to_string(), format!("after {} next() calls, fold() delivers {} runs, {} remain", j, rest.len(), exp.len() - j)));
            }
        }
        if fresh().count() != exp.len() {
            return Some(("minimiser.protocol.count".to_string(), "count() differs from the number of runs".to_string()));
        }
        if fresh().last() != exp.last().copied() {
            return Some(("minimiser.protocol.last".to_string(), "last() differs from the last run".to_string()));
        }
        let mut it = fresh();
        while it.next().is_some() {}
        if it.next().is_some() || it.next().is_some() {
            return Some(("minimiser.protocol.after_end".to_string(), "an exhausted iterator yielded another run".to_string()));
        }
        // positional adaptors
        let n3 = exp.len() / 3;
        if fresh().nth(n3) != exp.get(n3).copied() {
            return Some(("minimiser.protocol.nth".to_string(), format!("nth({}) differs", n3)));
        }
        let sk: Vec<(u64, usize, usize)> = fresh().skip(1).step_by(2).collect();
        let want: Vec<(u64, usize, usize)> = exp.iter().skip(1).step_by(2).copied().collect();
        if sk != want {
            return Some(("minimiser.protocol.skip_step".to_string(), "skip(1).step_by(2) differs".to_string()));
        }
        // several generators alive on one thread and advanced in turn (each must behave as if it were alone):
        // the same sequence with a different window, and a shifted copy of the sequence with the same parameters
        let w2 = if w + 1 <= 31 { w + 1 } else { w };
        let seq2: Vec<u8> = seq.iter().rev().copied().collect();
        let exp_a = exp.clone();
        let exp_b = model::minimiser_runs(seq, w2, m);
        let exp_c = model::minimiser_runs(&seq2, w, m);
        let mut a = mk_gen(seq, w, m, with_kmers);
        let mut b = mk_gen(seq, w2, m, with_kmers);
        let mut c = mk_gen(&seq2, w, m, with_kmers);
        let (mut ga, mut gb, mut gc) = (Vec::new(), Vec::new(), Vec::new());
        let (mut da, mut db, mut dc) = (false, false, false);
        let mut turn = 0usize;
        while !(da && db && dc) {
            match turn % 3 {
                0 if !da => match a.next() {
                    Some(x) => ga.push(x),
                    None => da = true,
                },
                1 if !db => match b.next() {
                    Some(x) => gb.push(x),
                    None => db = true,
                },
                2 if !dc => match c.next() {
                    Some(x) => gc.push(x),
                    None => dc = true,
                },
                _ => {}
            }
            turn += 1;
        }
        if ga != exp_a || gb != exp_b || gc != exp_c {
            return Some((
                "minimiser.protocol.interleaved_generators".to_string(),
                format!("three generators advanced in turn on one thread: runs {}/{}/{} vs {}/{}/{} when each runs alone", ga.len(), gb.len(), gc.len(), exp_a.len(), exp_b.len(), exp_c.len()),
            ));
        }
        None
    });
    match r {
        Ok(v) => v.map(|(a, b)| (a, b, Json::Null)),
        Err(p) => Some((panic_sig(&p), format!("iterator panicked under an adaptor: {}", p), Json::Null)),
    }
}

fn mk_gen<'a>(s: &'a [u8], w: usize, m: usize, with_kmers: bool) -> Box<dyn Iterator<Item = (u64, usize, usize)> + 'a> {
    if with_kmers {
        Box::new(KmerMinimiserGenerator::new(s, w, m).map(|x| (x.0, x.1, x.2)))
    } else {
        Box::new(MinimiserGenerator::new(s, w, m))
    }
}

fn judge(st: &mut Stats, seq: &[u8], w: usize, m: usize, with_kmers: bool) {
    let nontrivial = seq.len() >= w;
    st.case(nontrivial, hash_bytes(seq) ^ mix(w as u64 * 64 + m as u64));
    let r = if with_kmers { check_kmers(seq, w, m) } else { check_plain(seq, w, m) };
    if let Some((sig, msg, detail)) = r {
        st.violate(&sig, msg, case_json(seq, w, m).set("detail", detail));
    } else if seq.len() < 2000 && st.evaluations % 8 == 0 {
        if let Some((sig, msg, detail)) = check_protocol(seq, w, m, with_kmers) {
            st.violate(&sig, msg, case_json(seq, w, m).set("detail", detail));
        }
        st.class("protocol-checked");
    }
}

const SYMS: &[u8] = b"ACGTN";
const PAIRS: &[(usize, usize)] =
    &[(1, 1), (2, 1), (2, 2), (3, 1), (3, 2), (3, 3), (4, 2), (5, 2), (5, 3), (6, 3), (7, 4)];

fn nth_string(mut idx: u64, maxlen: usize) -> Vec<u8> {
    let base = SYMS.len() as u64;
    let mut len = 0usize;
    let mut count = 1u64;
    while idx >= count && len < maxlen {
        idx -= count;
        count *= base;
        len += 1;
    }
    let mut s = vec![0u8; len];
    for j in (0..len).rev() {
        s[j] = SYMS[(idx % base) as usize];
        idx /= base;
    }
    s
}

fn total_strings(maxlen: usize) -> u64 {
    let base = SYMS.len() as u64;
    let mut t = 0;
    let mut c = 1;
    for _ in 0..=maxlen {
        t += c;
        c *= base;
    }
    t
}

fn exhaustive_impl(ctx: &Ctx, with_kmers: bool) -> Stats {
    let maxlen = ctx.pick(8usize, 10usize);
    let total = total_strings(maxlen);
    let mut st = par_cases(ctx, total, |idx, st| {
        let s = nth_string(idx, maxlen);
        for &(w, m) in PAIRS {
            judge(st, &s, w, m, with_kmers);
        }
        if idx % 200_003 == 1 {
            st.sample(case_json(&s, 4, 2));
        }
    });
    st.set_extra("exhaustive", Json::Bool(!st.truncated));
    st.set_extra("alphabet", Json::s("ACGTN"));
    st.set_extra("max_len", Json::u(maxlen));
    st.set_extra("wm_pairs", Json::s(format!("{:?}", PAIRS)));
    st
}

fn random_impl(ctx: &Ctx, with_kmers: bool, n: u64) -> Stats {
    let tag = if with_kmers { "c18.random" } else { "c09.random" };
    par_cases(ctx, n, |idx, st| {
        let mut rng = Rng::keyed(ctx.seed, tag, idx);
        let m = (idx % 31) as usize + 1;
        let wmax = if with_kmers { 31 } else { m + 60 };
        let w = match rng.below(6) {
            0 => m,
            1 => (m + 1).min(wmax),
            _ => rng.usize(m, wmax),
        };
        let maxlen = if rng.chance(1, 25) { 600 } else { w + 50 };
        let len = match rng.below(8) {
            0 => w,
            1 => w.saturating_sub(1),
            2 => w + 1,
            _ => gen_len(&mut rng, m, Some(w), maxlen),
        };
        // bias towards tie-producing content
        let (class, seq) = match rng.below(3) {
            0 => {
                let c = *rng.pick(&[SeqClass::TwoLetter, SeqClass::Period2, SeqClass::Period3, SeqClass::Tandem, SeqClass::HomoPolymer, SeqClass::Palindrome]);
                (c, gen_seq(&mut rng, c, len, false))
            }
            _ => gen_seq_any(&mut rng, len, false),
        };
        st.class(class.name());
        if st.evaluations % 16 == 0 {
            let exp = model::minimiser_runs(&seq, w, m);
            classes_of(st, &seq, w, m, &exp);
        }
        judge(st, &seq, w, m, with_kmers);
        if idx % 30_011 == 3 {
            st.sample(case_json(&seq, w, m).set("class", Json::s(class.name())));
        }
    })
}

/// "every sequence, window size w and minimiser size m with 1 <= m <= w": windows far beyond the usual m+60 —
/// (a) real windows of tens of thousands of bases on long records (as many m-mers per window as a 16-bit or
/// 65536-entry structure can hold, and a few more), judged against the O(n) reference; (b) windows longer than
/// the record, up to absurd values: nothing may be emitted, and nothing proportional to w may be needed.
pub fn widewindow(ctx: &Ctx) -> Stats {
    let mut st = Stats::new();
    let mut rng = Rng::keyed(ctx.seed, "c09.widewindow", 0);
    // (a)
    let reps = ctx.pick(8usize, 48usize);
    for rep in 0..reps {
        if ctx.expired() {
            st.truncated = true;
            return st;
        }
        // m large enough that the minimum over tens of thousands of m-mers is not always the all-A word: with 4^m far
        // above the number of m-mers per window the minimiser changes as the window slides, so a window that is one
        // m-mer too short or too long yields different runs (small m only in the narrow cases)
        let m = if rep % 6 == 4 { *rng.pick(&[1usize, 4, 7]) } else { *rng.pick(&[12usize, 15, 20, 28]) };
        let span = match rep % 6 {
            0 => 65_535usize,
            1 => 65_536,
            2 => 65_537,
            3 => 70_000,
            4 => rng.usize(255, 258),
            _ => rng.usize(1000, 90_000),
        };
        let w = span + m - 1;
        // the window slides over at least half a window length in half of the cases: the minimiser of a uniform
        // random text changes about twice per window length
        let len = w + match rep % 4 {
            0 => 0,
            1 => 1,
            2 => rng.usize(span / 2, span),
            _ => rng.usize(span, span * 3 / 2),
        };
        let class = if rep % 6 == 4 { *rng.pick(&[SeqClass::Uniform, SeqClass::TwoLetter, SeqClass::Period3, SeqClass::IsolatedN]) } else if rep % 4 >= 2 { SeqClass::Uniform } else { *rng.pick(&[SeqClass::Uniform, SeqClass::Uniform, SeqClass::IsolatedN]) };
        let mut seq = gen_seq(&mut rng, class, len, false);
        if class == SeqClass::IsolatedN {
            // keep at least one clean window
            for b in seq.iter_mut().take(w) {
                if !matches!(*b, b'A' | b'C' | b'G' | b'T' | b'a' | b'c' | b'g' | b't' | b'U' | b'u') {
                    *b = b'C';
                }
            }
        }
        if len > w + m + 10 && rep % 6 != 4 {
            // a unique smallest m-mer (all A) somewhere in the middle: every window that contains it has minimiser 0, so the
            // runs around it begin and end exactly one window length away
            // (placed beyond the first window, so that some windows do not contain it)
            let p = rng.usize(w + 1, len - m);
            for b in seq.iter_mut().skip(p).take(m) {
                *b = b'A';
            }
        }
        let case = Json::obj().set("w", Json::u(w)).set("m", Json::u(m)).set("len", Json::u(len)).set("class", Json::s(class.name())).set("seq_hash", Json::Int(hash_bytes(&seq) as i128));
        note_current_case(ctx, &case);
        st.case(true, hash_bytes(&seq) ^ mix((w * 64 + m) as u64));
        st.class(&format!("m-mers per window {}", if span >= 65_535 && span <= 65_537 { span.to_string() } else if span > 65_537 { ">65537".into() } else { "<65535".into() }));
        let exp = model::minimiser_runs_fast(&seq, w, m);
        // (the k-mer-reporting iterator packs a w-mer into 64 bits: w <= 31 only, not exercised here)
        let got = guarded(|| MinimiserGenerator::new(&seq, w, m).collect::<Vec<(u64, usize, usize)>>());
        match got {
            Err(p) => st.violate(&panic_sig(&p), format!("iterator panicked on a {}-base window: {}", w, p), case),
            Ok(a) => {
                if a != exp {
                    let first = a.iter().zip(exp.iter()).position(|(x, y)| x != y).unwrap_or(a.len().min(exp.len()));
                    st.violate(
                        "minimiser.widewindow.runs",
                        format!("w={} m={} len={}: iterator yields {} runs, reference {}; first difference at run {} ({:?} vs {:?})", w, m, len, a.len(), exp.len(), first, a.get(first), exp.get(first)),
                        case,
                    );
                } else {
                    if exp.len() >= 2 {
                        st.class("minimiser changes while the wide window slides");
                    }
                    if rep % 5 == 0 {
                        st.sample(case.set("runs", Json::u(exp.len())));
                    }
                }
            }
        }
    }
    // (b)
    for (i, &w) in [1usize << 20, 1_000_000_000, 10_000_000_000, 10_000_000_000_000, 1 << 62, usize::MAX / 2].iter().enumerate() {
        for m in [1usize, 10, 31] {
            let len = *rng.pick(&[0usize, 1, 30, 500, 5000]);
            let (class, seq) = gen_seq_any(&mut rng, len, false);
            let case = Json::obj().set("w", Json::Int(w as i128)).set("m", Json::u(m)).set("seq", Json::bytes(&seq)).set("class", Json::s(class.name()));
            note_current_case(ctx, &case);
            st.case(true, hash_bytes(&seq) ^ mix(w as u64 ^ m as u64) ^ i as u64);
            st.class("window longer than the sequence");
            match guarded(|| MinimiserGenerator::new(&seq, w, m).collect::<Vec<_>>()) {
                Err(p) => st.violate(&format!("minimiser.hugew:{}", panic_sig(&p)), format!("w={} on a {}-byte sequence panicked: {}", w, seq.len(), p), case),
                Ok(v) => {
                    if !v.is_empty() {
                        st.violate("minimiser.short", format!("w={} on a {}-byte sequence: {} runs emitted", w, seq.len(), v.len()), case);
                    }
                }
            }
        }
    }
    st
}

pub fn exhaustive(ctx: &Ctx) -> Stats {
    exhaustive_impl(ctx, false)
}
pub fn exhaustive18(ctx: &Ctx) -> Stats {
    exhaustive_impl(ctx, true)
}
pub fn random(ctx: &Ctx) -> Stats {
    random_impl(ctx, false, ctx.n(250_000, 20_000_000))
}
pub fn random18(ctx: &Ctx) -> Stats {
    random_impl(ctx, true, ctx.n(250_000, 20_000_000))
}

pub fn replay(case: &Json, st: &mut Stats, with_kmers: bool) {
    let seq = parse_bytes(case.get("seq").and_then(|s| s.as_str()).unwrap_or(""));
    let w = case.get("w").and_then(|k| k.as_i()).unwrap_or(1) as usize;
    let m = case.get("m").and_then(|k| k.as_i()).unwrap_or(1) as usize;
    judge(st, &seq, w, m, with_kmers);
}

/// very long runs of ambiguous bytes / long clean sequences for both minimiser iterators
pub fn longruns(ctx: &Ctx) -> Stats {
    let mut st = Stats::new();
    let runs: &[usize] = if ctx.tier == Tier::Quick { &[12_000, 400_000] } else { &[12_000, 70_000, 400_000, 2_000_000] };
    let mut i = 0u64;
    for &run in runs {
        for &(w, m) in &[(1usize, 1usize), (9, 4), (31, 7), (40, 31)] {
            i += 1;
            let mut rng = Rng::keyed(ctx.seed, "c09.longruns", i);
            let mut seq: Vec<u8> = (0..w + 5).map(|_| *rng.pick(b"ACGT")).collect();
            seq.extend(std::iter::repeat(b'N').take(run));
            seq.extend((0..w + 9).map(|_| *rng.pick(b"ACGT")));
            seq.push(b'N');
            seq.extend((0..(run / 2).min(150_000)).map(|_| *rng.pick(b"ACGT")));
            let case = Json::obj().set("layout", Json::s(format!("{} clean + {} x N + {} clean + N + {} two-letter", w + 5, run, w + 9, (run / 2).min(150_000)))).set("w", Json::u(w)).set("m", Json::u(m));
            note_current_case(ctx, &case);
            st.case(true, mix(i) ^ mix(run as u64));
            st.class(&format!("ambiguous-run={}", run));
            if let Some((sig, msg, _)) = check_plain(&seq, w, m) {
                st.violate(&format!("{}:longrun", sig), msg, case.clone());
            }
            if w <= 31 {
                if let Some((sig, msg, _)) = check_kmers(&seq, w, m) {
                    st.violate(&format!("{}:longrun", sig), msg, case.clone());
                }
            }
            if i % 3 == 1 {
                st.sample(case);
            }
        }
    }
    st
}

/// gaps of identical ambiguous bytes of every length 0..=140 (+ some larger) between two clean stretches
pub fn gaps(ctx: &Ctx) -> Stats {
    let mut st = Stats::new();
    let lens: Vec<usize> = (0..=140).chain(250..=260).chain([511, 512, 513, 1023, 1024, 1025]).collect();
    let mut i = 0u64;
    for &(w, m) in &[(1usize, 1usize), (4, 2), (8, 5), (15, 7), (31, 7), (40, 31)] {
        for &gap in &lens {
            for &amb in &[b'N', 0xE4u8] {
                i += 1;
                let mut rng = Rng::keyed(ctx.seed, "c09.gaps", i);
                let mut seq: Vec<u8> = (0..w + rng.usize(0, 6)).map(|_| *rng.pick(b"ACGT")).collect();
                seq.extend(std::iter::repeat(amb).take(gap));
                seq.extend((0..w + rng.usize(0, 9)).map(|_| *rng.pick(b"ACGT")));
                st.case(true, mix(i));
                let case = || case_json(&seq, w, m).set("gap_len", Json::u(gap));
                if let Some((sig, msg, _)) = check_plain(&seq, w, m) {
                    st.violate(&format!("{}:gap", sig), format!("gap of {}: {}", gap, msg), case());
                }
                if w <= 31 {
                    if let Some((sig, msg, _)) = check_kmers(&seq, w, m) {
                        st.violate(&format!("{}:gap", sig), format!("gap of {}: {}", gap, msg), case());
                    }
                }
                if i % 301 == 3 {
                    st.sample(Json::obj().set("w", Json::u(w)).set("m", Json::u(m)).set("gap_len", Json::u(gap)));
                }
            }
        }
    }
    st.set_extra("gap_lengths", Json::s("0..=140, 250..=260, 511..513, 1023..1025"));
    st
}

/// thorough only: one sequence of 2^32 + 2^20 bases through both minimiser iterators in lock step: run count,
/// agreement of the two iterators on every run, positions never decreasing and < len, tail runs against the
/// brute force on the tail slice, number of attached w-mers against the analytic count
pub fn gigabases(ctx: &Ctx) -> Stats {
    let mut st = Stats::new();
    let mut rng = Rng::keyed(ctx.seed, "c09.gigabases", 0);
    let block: Vec<u8> = (0..1 << 20).map(|_| *rng.pick(b"ACGT")).collect();
    let len = (1usize << 32) + (1usize << 20) + 77;
    let (w, m) = (15usize, 7usize);
    let mut seq: Vec<u8> = Vec::with_capacity(len);
    while seq.len() < len {
        let n = (len - seq.len()).min(block.len());
        seq.extend_from_slice(&block[..n]);
    }
    let n_pos = len - 3000;
    seq[n_pos] = b'N';
    let case = Json::obj().set("layout", Json::s(format!("{} bases: a random 1 MiB block repeated, N at {}", len, n_pos))).set("w", Json::u(w)).set("m", Json::u(m));
    note_current_case(ctx, &case);
    st.case(true, mix(len as u64));
    st.sample(case.clone());
    let expected_wmers: u64 = ((n_pos - w + 1) + (len - n_pos - 1 - w + 1)) as u64;
    let r = guarded(|| {
        let mut a = KmerMinimiserGenerator::new(&seq, w, m);
        let mut b = MinimiserGenerator::new(&seq, w, m);
        let mut runs = 0u64;
        let mut wmers = 0u64;
        let mut prev_start = 0usize;
        let mut tail: std::collections::VecDeque<(u64, usize, usize)> = std::collections::VecDeque::new();
        let mut problem: Option<String> = None;
        loop {
            match (a.next(), b.next()) {
                (None, None) => break,
                (Some(x), Some(y)) => {
                    runs += 1;
                    wmers += x.3.len() as u64;
                    if (x.0, x.1, x.2) != y {
                        problem = Some(format!("run #{}: k-mer reporting iterator {:?} vs plain {:?}", runs, (x.0, x.1, x.2), y));
                        break;
                    }
                    if y.1 < prev_start || y.2 > len || y.1 >= y.2 {
                        problem = Some(format!("run #{} = {:?}: positions not increasing / outside the sequence of {} bases", runs, y, len));
                        break;
                    }
                    prev_start = y.1;
                    if tail.len() == 64 {
                        tail.pop_front();
                    }
                    tail.push_back(y);
                }
                (x, y) => {
                    problem = Some(format!("one iterator ended before the other after {} runs: {:?} / {:?}", runs, x.map(|v| (v.0, v.1, v.2)), y));
                    break;
                }
            }
        }
        (runs, wmers, tail, problem)
    });
    match r {
        Err(p) => st.violate(&panic_sig(&p), p, case),
        Ok((runs, wmers, tail, problem)) => {
            st.set_extra("runs_compared", Json::Int(runs as i128));
            if let Some(p) = problem {
                st.violate("minimiser.gigabases", p, case);
            } else if wmers != expected_wmers {
                st.violate("kmermin.wmers:gigabases", format!("{} w-mers attached, {} valid windows exist", wmers, expected_wmers), case);
            } else {
                // runs that lie entirely after the N: brute force on the slice after it
                let off = n_pos + 1;
                let exp: Vec<(u64, usize, usize)> = model::minimiser_runs(&seq[off..], w, m).into_iter().map(|(v, s0, e)| (v, s0 + off, e + off)).collect();
                let got: Vec<(u64, usize, usize)> = tail.iter().copied().filter(|r| r.1 >= off).collect();
                let n = got.len().min(exp.len());
                if n == 0 || got[got.len() - n..] != exp[exp.len() - n..] {
                    st.violate("minimiser.runs:gigabases", format!("the last {} runs differ from the brute force on the tail", n), case);
                }
            }
        }
    }
    st
}
