//! C08 — coverage histogram rows bin each window by its global k-mer multiplicity.

use super::c07::ref_counts;
use crate::common::*;
use crate::util::*;
use coverage::CovComputer;
use refmodel::gen::{gen_records, gen_seq, Rec, SeqClass};
use refmodel::json::Json;
use refmodel::model;
use refmodel::rng::{hash_bytes, mix, Rng};
use refmodel::ser::{self, SerOpts};
use std::collections::BTreeMap;

#[derive(Clone, Debug)]
pub struct CovCfg {
    pub k: usize,
    pub bin_size: usize,
    pub bin_count: usize,
    pub norm: bool,
    pub threads: usize,
    pub mem_gb: f64,
    pub delim: String,
    pub alt: bool,
}

impl CovCfg {
    pub fn json(&self) -> Json {
        Json::obj()
            .set("k", Json::u(self.k))
            .set("bin_size", Json::u(self.bin_size))
            .set("bin_count", Json::u(self.bin_count))
            .set("norm", Json::Bool(self.norm))
            .set("threads", Json::u(self.threads))
            .set("memory_gb", Json::Num(self.mem_gb))
            .set("delim", Json::bytes(self.delim.as_bytes()))
            .set("separate_counting_input", Json::Bool(self.alt))
    }
}

/// reference histogram of one record
pub fn ref_hist(seq: &[u8], cfg: &CovCfg, counts: &BTreeMap<u64, u64>) -> (Vec<u64>, u64) {
    let mut h = vec![0u64; cfg.bin_count];
    let mut total = 0;
    for c in model::canonical_stream(seq, cfg.k) {
        let mult = *counts.get(&c).unwrap_or(&0);
        let b = ((mult / cfg.bin_size as u64) as usize).min(cfg.bin_count - 1);
        h[b] += 1;
        total += 1;
    }
    (h, total)
}

pub fn check_vectors(data: &[u8], recs: &[Rec], count_recs: &[Rec], cfg: &CovCfg) -> Result<(), (String, String)> {
    let counts = ref_counts(count_recs, cfg.k);
    let ls = lines(data);
    if ls.len() != recs.len() {
        let tail_empty = recs.iter().rev().take_while(|r| r.seq.is_empty()).count();
        let sig = if ls.len() < recs.len() && recs.len() - ls.len() <= tail_empty { "cov.rowcount:emptytail" } else { "cov.rowcount" };
        return Err((sig.into(), format!("{} rows for {} records", ls.len(), recs.len())));
    }
    for (i, (row, rec)) in ls.iter().zip(recs.iter()).enumerate() {
        let fields = split_fields(row, cfg.delim.as_bytes());
        if fields.len() != cfg.bin_count {
            return Err(("cov.fieldcount".into(), format!("row {} has {} fields, bin-count is {}", i, fields.len(), cfg.bin_count)));
        }
        let (h, total) = ref_hist(&rec.seq, cfg, &counts);
        for (b, f) in fields.iter().enumerate() {
            let v = parse_f64(f).ok_or_else(|| ("cov.unparseable".to_string(), format!("row {} field {} = {:?}", i, b, String::from_utf8_lossy(f))))?;
            let ok = if cfg.norm { frac_matches(v, h[b], total) } else { v == h[b] as f64 };
            if !ok {
                return Err((
                    if cfg.norm { "cov.value.norm" } else { "cov.value.count" }.into(),
                    format!("row {} (record {}) bin {}: printed {} but {} of {} valid windows fall in that bin", i, rec.id, b, String::from_utf8_lossy(f), h[b], total),
                ));
            }
        }
    }
    Ok(())
}

pub fn run_cov(in_path: &str, alt_path: Option<&str>, out_dir: &str, cfg: &CovCfg) -> Result<Vec<u8>, (String, String)> {
    let _ = std::fs::create_dir_all(out_dir);
    if !std::path::Path::new(&format!("{}/kmers.vectors", out_dir)).exists() {
        // every other fresh directory starts with a stale, longer vectors file
        super::oligo::prepare_output(&format!("{}/kmers.vectors", out_dir));
    }
    let r = guarded(|| {
        let mut cov = CovComputer::new(in_path.to_string(), out_dir.to_string(), cfg.k, cfg.bin_size, cfg.bin_count);
        cov.set_threads(cfg.threads);
        cov.set_norm(cfg.norm);
        cov.set_delim(cfg.delim.clone());
        cov.set_max_memory(cfg.mem_gb);
        if let Some(a) = alt_path {
            cov.set_kmer_path(a.to_string());
        }
        let r = cov.build_table();
        cov.compute_coverages();
        r
    });
    match r {
        Err(p) => Err((panic_sig(&p), format!("coverage run panicked: {}", p))),
        Ok(Err(e)) => Err(("cov.error".into(), format!("build_table returned Err({})", e))),
        Ok(Ok(())) => std::fs::read(format!("{}/kmers.vectors", out_dir)).map_err(|e| ("cov.no_vectors_file".to_string(), e.to_string())),
    }
}

fn gen_case(rng: &mut Rng, cli_ranges: bool) -> (Vec<Rec>, Option<Vec<Rec>>, CovCfg) {
    let k = if cli_ranges { rng.usize(7, 31) } else if rng.chance(1, 2) { rng.usize(1, 6) } else { rng.usize(1, 31) };
    let nrec = rng.usize(1, 40);
    let mut recs = gen_records(rng, nrec, k, None, 250, 0);
    // repetitive content => multiplicities far beyond the last bin
    if rng.chance(1, 2) {
        let unit_class = *rng.pick(&[SeqClass::HomoPolymer, SeqClass::Period2, SeqClass::Tandem]);
        let reps = rng.usize(1, nrec);
        for j in 0..reps {
            let len = rng.usize(k + 5, k + 200);
            recs[j % nrec].seq = gen_seq(rng, unit_class, len, true);
        }
    }
    // records without any window at the start / middle / end
    match rng.below(6) {
        0 => recs[0].seq = vec![],
        1 => recs[nrec / 2].seq = b"NNNNNN".to_vec(),
        2 => recs[nrec - 1].seq = gen_seq(rng, SeqClass::Uniform, k.saturating_sub(1), true),
        3 => {
            recs[nrec - 1].seq = vec![];
            if nrec > 1 {
                recs[nrec - 2].seq = vec![];
            }
        }
        _ => {}
    }
    let alt = if rng.chance(1, 3) {
        let na = rng.usize(1, 20);
        let mut a = gen_records(rng, na, k, None, 250, 0);
        // overlapping content: copy some of the vector input's records
        for (j, r) in a.iter_mut().enumerate() {
            if j % 2 == 0 && !recs.is_empty() {
                r.seq = recs[j % recs.len()].seq.clone();
            }
        }
        Some(a)
    } else {
        None
    };
    let cfg = CovCfg {
        k,
        bin_size: if cli_ranges { rng.usize(5, 40) } else if rng.chance(1, 8) { 1_000_000 } else if rng.chance(1, 4) { rng.usize(1, 300) } else { rng.usize(1, 50) },
        bin_count: if cli_ranges { rng.usize(5, 40) } else { rng.usize(1, 40) },
        norm: rng.chance(1, 2),
        threads: rng.usize(1, 16),
        mem_gb: *rng.pick(&[0.001f64, 0.5, 1.0, 6.0]),
        delim: rng.pick(&[" ", ",", "\t"]).to_string(),
        alt: alt.is_some(),
    };
    let mut cfg = cfg;
    if rng.chance(1, 10) {
        // a histogram whose span bin_size * (bin_count - 1) reaches or passes 2^31 / 2^32 (legal: the CLI only asks for >= 5):
        // every multiplicity is far below the bin size, so everything belongs to bin 0 (the product stays below 2^58)
        let (s, c): (usize, usize) = match rng.usize(0, 9) {
            0 => (1 << 20, rng.usize(4097, 4100)),
            1 => (1 << 16, rng.usize(65_537, 65_540)),
            2 => (1 << 31, rng.usize(5, 9)),
            3 => (1 << 32, rng.usize(5, 40)),
            4 => ((1 << 33) + rng.usize(0, 1000), rng.usize(5, 40)),
            5 => (1 << 40, rng.usize(5, 40)),
            6 => (u32::MAX as usize, rng.usize(5, 9)),
            7 => ((1 << 31) - 1, rng.usize(5, 9)),
            8 => (rng.usize(1 << 22, 1 << 30), rng.usize(1025, 2050)),
            _ => (1_000_003, rng.usize(4290, 4300)),
        };
        cfg.bin_size = s;
        cfg.bin_count = c;
    }
    if !cli_ranges && rng.chance(1, 3) {
        // a ceiling so small that the *counting* pass needs several chunks and partitions
        let total: u64 = alt.as_ref().unwrap_or(&recs).iter().map(|r| r.seq.len() as u64).sum();
        cfg.mem_gb = super::c07::mem_for_limit(total / rng.range(2, 20).max(1));
    }
    (recs, alt, cfg)
}

pub fn lib(ctx: &Ctx) -> Stats {
    let n = ctx.n(300, 10_000);
    par_cases(ctx, n, |idx, st| {
        let mut rng = Rng::keyed(ctx.seed, "c08.lib", idx);
        let (mut recs, alt, mut cfg) = gen_case(&mut rng, false);
        if idx % 40 == 7 && alt.is_none() {
            // a k-mer whose multiplicity exceeds 2^16 (and 2^17) together with bins that reach beyond it: a homopolymer /
            // dinucleotide record of 70-300 thousand bases, bin size 1 000-10 000, enough bins to tell 65 535 from the truth
            let len = rng.usize(70_000, 300_000);
            let unit = *rng.pick(&[SeqClass::HomoPolymer, SeqClass::Period2]);
            recs[0].seq = gen_seq(&mut rng, unit, len, true);
            cfg.bin_size = *rng.pick(&[1000usize, 5000, 10_000]);
            cfg.bin_count = len / cfg.bin_size + rng.usize(2, 6);
            cfg.k = cfg.k.max(2);
            cfg.mem_gb = 6.0;
            st.class("multiplicity > 65535 within the binned range");
        }
        let sc = Scratch::new(ctx, "c08");
        // the vector input and the counting input may be of different format families (.fa vs .fq)
        let main_fq = recs.iter().all(|r| !r.seq.is_empty()) && rng.chance(1, 3);
        let inp = if main_fq { sc.write("in.fq", &ser::to_fastq(&recs, &SerOpts::plain())) } else { sc.write("in.fa", &ser::to_fasta(&recs, &SerOpts::plain())) };
        let altp = alt.as_ref().map(|a| {
            if a.iter().all(|r| !r.seq.is_empty()) && rng.chance(1, 2) {
                sc.write("alt.fastq", &ser::to_fastq(a, &SerOpts::plain()))
            } else {
                sc.write("alt.fasta", &ser::to_fasta(a, &SerOpts::plain()))
            }
        });
        if let Some(a) = &altp {
            if a.ends_with(".fastq") != main_fq {
                st.class("counting-input-of-other-format-family");
            }
        }
        let count_recs: &[Rec] = alt.as_deref().unwrap_or(&recs);
        let case = |cfg: &CovCfg| {
            let mut j = Json::obj().set("cfg", cfg.json()).set("records", super::oligo::recs_json(&recs));
            if let Some(a) = &alt {
                j.put("counting_records", super::oligo::recs_json(a));
            }
            j
        };
        let windows: usize = recs.iter().map(|r| model::windows(&r.seq, cfg.k).len()).sum();
        st.case(windows > 0, mix(idx) ^ hash_bytes(&recs[0].seq));
        st.class(if cfg.mem_gb < 1.0 { "flush-per-record" } else { "flush-once" });
        if (cfg.bin_size as u128) * (cfg.bin_count as u128 - 1) >= 1u128 << 31 {
            st.class("histogram span >= 2^31");
        }
        if cfg.mem_gb < 0.0005 {
            st.class("multi-chunk-counting");
        }
        if cfg.alt {
            st.class("separate-counting-input");
        }
        if recs.last().map_or(false, |r| model::windows(&r.seq, cfg.k).is_empty()) {
            st.class("last-record-without-window");
        }
        let base = match run_cov(&inp, altp.as_deref(), &sc.subdir("o0"), &cfg) {
            Ok(d) => d,
            Err((sig, msg)) => {
                st.violate(&sig, msg, case(&cfg));
                return;
            }
        };
        if let Err((sig, msg)) = check_vectors(&base, &recs, count_recs, &cfg) {
            st.violate(&sig, msg, case(&cfg));
            return;
        }
        // same bytes for other thread counts / memory settings
        for v in 0..2 {
            let mut c2 = cfg.clone();
            c2.threads = rng.usize(1, 16);
            c2.mem_gb = if v == 0 { *rng.pick(&[0.001f64, 0.5, 1.0, 6.0]) } else { super::c07::mem_for_limit(count_recs.iter().map(|r| r.seq.len() as u64).sum::<u64>() / rng.range(2, 12).max(1)) };
            match run_cov(&inp, altp.as_deref(), &sc.subdir(&format!("o{}", v + 1)), &c2) {
                Ok(d) => {
                    if d != base {
                        let sig = if lines(&d).len() != lines(&base).len() { "cov.config_dependence.rows" } else { "cov.config_dependence" };
                        st.violate(
                            sig,
                            format!("vectors differ between (threads={}, memory={}) and (threads={}, memory={}): {} vs {} rows", cfg.threads, cfg.mem_gb, c2.threads, c2.mem_gb, lines(&base).len(), lines(&d).len()),
                            case(&c2),
                        );
                        return;
                    }
                }
                Err((sig, msg)) => {
                    st.violate(&sig, msg, case(&c2));
                    return;
                }
            }
        }
        // a second, *different* computation into the directory of the first one (other k, the counting input
        // switched): whatever the first run left on disk or in memory must not leak into it
        {
            let mut c3 = cfg.clone();
            c3.k = if cfg.k > 1 { cfg.k - 1 } else { cfg.k + 1 };
            c3.alt = !cfg.alt && alt.is_none() && false;
            let use_alt = altp.is_some() && rng.chance(1, 2);
            let count3: &[Rec] = if use_alt { alt.as_deref().unwrap() } else { &recs };
            c3.alt = use_alt;
            match run_cov(&inp, if use_alt { altp.as_deref() } else { None }, &sc.subdir("o0"), &c3) {
                Ok(d) => {
                    if let Err((sig, msg)) = check_vectors(&d, &recs, count3, &c3) {
                        st.violate(&format!("{}:second_run_same_dir", sig), format!("second computation (k={}) into the same directory: {}", c3.k, msg), case(&c3));
                        return;
                    }
                }
                Err((sig, msg)) => {
                    st.violate(&sig, msg, case(&c3));
                    return;
                }
            }
        }
        if idx % 101 == 0 {
            st.sample(Json::obj().set("cfg", cfg.json()).set("records", Json::u(recs.len())).set("valid_windows", Json::u(windows)));
        }
    })
}

pub fn cli(ctx: &Ctx) -> Stats {
    let n = ctx.n(25, 700);
    par_cases(ctx, n, |idx, st| {
        let mut rng = Rng::keyed(ctx.seed, "c08.cli", idx);
        let (recs, alt, mut cfg) = gen_case(&mut rng, true);
        cfg.mem_gb = rng.usize(6, 128) as f64;
        let sc = Scratch::new(ctx, "c08c");
        let main_fq = recs.iter().all(|r| !r.seq.is_empty()) && rng.chance(1, 3);
        let inp = if main_fq { sc.write("in.fq", &ser::to_fastq(&recs, &SerOpts::plain())) } else { sc.write("in.fa", &ser::to_fasta(&recs, &SerOpts::plain())) };
        let altp = alt.as_ref().map(|a| {
            if a.iter().all(|r| !r.seq.is_empty()) && rng.chance(1, 2) {
                sc.write("alt.fastq", &ser::to_fastq(a, &SerOpts::plain()))
            } else {
                sc.write("alt.fasta", &ser::to_fasta(a, &SerOpts::plain()))
            }
        });
        let out = sc.path("outdir");
        let preset = match cfg.delim.as_str() {
            "," => "csv",
            "\t" => "tsv",
            _ => "spc",
        };
        let mut args = sv(&[
            "cov", "-i", &inp, "-o", &out, "-k", &cfg.k.to_string(), "-s", &cfg.bin_size.to_string(), "-c", &cfg.bin_count.to_string(), "-p", preset, "-t",
            &cfg.threads.to_string(), "-m", &(cfg.mem_gb as u64).to_string(),
        ]);
        if !cfg.norm {
            args.push("--counts".into());
        }
        if let Some(a) = &altp {
            args.push("--alt-input".into());
            args.push(a.clone());
        }
        let case = || Json::obj().set("argv", Json::s(args.join(" "))).set("records", super::oligo::recs_json(&recs));
        let windows: usize = recs.iter().map(|r| model::windows(&r.seq, cfg.k).len()).sum();
        st.case(windows > 0, mix(idx) ^ hash_bytes(args.join(" ").as_bytes()));
        let res = run_cli(ctx, &args, None, &CliLimits::default());
        if res.timed_out && !res.cpu_exceeded && !res.stalled {
            st.inconclusive(format!("CLI watchdog: {}", res.describe()));
            return;
        }
        if !res.ok() {
            st.violate("cli.cov.exit", format!("cov failed: {}", res.describe()), case());
            return;
        }
        let data = std::fs::read(format!("{}/kmers.vectors", out)).unwrap_or_default();
        let count_recs: &[Rec] = alt.as_deref().unwrap_or(&recs);
        if let Err((sig, msg)) = check_vectors(&data, &recs, count_recs, &cfg) {
            st.violate(&format!("cli.{}", sig), msg, case());
        } else if idx % 11 == 0 {
            st.sample(Json::obj().set("argv", Json::s(args.join(" "))).set("valid_windows", Json::u(windows)));
        }
    })
}

/// Thorough, best effort: one generated input of > 2.2 GiB of bases so that the `>= 1 GiB` batch
/// threshold of the vector pass flushes every few records (DESIGN.md C08).  Content is periodic so the
/// reference multiplicities are computed analytically (period p: all windows at i = r mod p are equal).
pub fn big(ctx: &Ctx) -> Stats {
    use std::io::Write;
    let mut st = Stats::new();
    let mut rng = Rng::keyed(ctx.seed, "c08.big", 0);
    let k = rng.usize(2, 4);
    let rec_len: usize = (256 << 20) + rng.usize(0, 1000);
    let units: [&[u8]; 4] = [b"A", b"AC", b"ACG", b"AACGT"];
    // 9 big records + base-less records in the middle and at the very end
    let mut plan: Vec<(String, Option<&[u8]>, usize)> = Vec::new();
    for i in 0..9 {
        plan.push((format!("big{}", i), Some(units[(i + rng.usize(0, 3)) % 4]), rec_len + i));
        if i == 3 || i == 8 {
            plan.push((format!("empty{}", i), None, 0));
        }
    }
    let sc = Scratch::new(ctx, "c08big");
    let inp = sc.path("big.fa");
    {
        let f = std::fs::File::create(&inp).expect("create big input");
        let mut w = std::io::BufWriter::with_capacity(1 << 22, f);
        for (id, unit, len) in &plan {
            w.write_all(format!(">{}\n", id).as_bytes()).unwrap();
            if let Some(u) = unit {
                let block: Vec<u8> = (0..(u.len() * 4096)).map(|i| u[i % u.len()]).collect();
                let mut left = *len;
                while left > 0 {
                    let n = left.min(block.len());
                    // keep the phase: blocks are multiples of the unit length
                    w.write_all(&block[..n]).unwrap();
                    left -= n;
                }
                w.write_all(b"\n").unwrap();
            }
        }
        w.flush().unwrap();
    }
    // analytic reference: per record, windows by phase
    let mut global: BTreeMap<u64, u64> = BTreeMap::new();
    let mut per_rec: Vec<Vec<(u64, u64)>> = Vec::new(); // (canonical code, windows with it)
    for (_, unit, len) in &plan {
        let mut v = Vec::new();
        if let Some(u) = unit {
            if *len >= k {
                let p = u.len();
                let last = len - k; // last window start
                for r in 0..p.min(last + 1) {
                    let text: Vec<u8> = (0..k).map(|j| u[(r + j) % p]).collect();
                    let code = model::canonical(model::encode(&text).unwrap() as u64, k);
                    let cnt = ((last - r) / p + 1) as u64;
                    v.push((code, cnt));
                    *global.entry(code).or_insert(0) += cnt;
                }
            }
        }
        per_rec.push(v);
    }
    let cfg = CovCfg { k, bin_size: rng.usize(1, 50), bin_count: rng.usize(2, 12), norm: false, threads: 16, mem_gb: 1.0, delim: " ".into(), alt: false };
    let total_bases: usize = plan.iter().map(|p| p.2).sum();
    let case = Json::obj().set("cfg", cfg.json()).set("records", Json::u(plan.len())).set("total_bases", Json::Int(total_bases as i128)).set("layout", Json::s("9 periodic records of ~256 MiB + base-less records after #3 and at the end"));
    note_current_case(ctx, &case);
    st.case(true, mix(total_bases as u64));
    st.sample(case.clone());
    let t0 = std::time::Instant::now();
    match run_cov(&inp, None, &sc.subdir("out"), &cfg) {
        Err((sig, msg)) => st.violate(&format!("big.{}", sig), msg, case),
        Ok(data) => {
            let ls = lines(&data);
            if ls.len() != plan.len() {
                st.violate("big.cov.rowcount", format!("{} rows for {} records (batches flushed every ~4 records)", ls.len(), plan.len()), case);
            } else {
                for (i, (row, v)) in ls.iter().zip(per_rec.iter()).enumerate() {
                    let mut h = vec![0u64; cfg.bin_count];
                    for (code, cnt) in v {
                        let b = ((global[code] / cfg.bin_size as u64) as usize).min(cfg.bin_count - 1);
                        h[b] += cnt;
                    }
                    let fields: Vec<f64> = split_fields(row, b" ").iter().filter_map(|f| parse_f64(f)).collect();
                    if fields.len() != cfg.bin_count || fields.iter().zip(h.iter()).any(|(a, b)| *a != *b as f64) {
                        st.violate("big.cov.value", format!("row {}: {:?} != expected {:?}", i, &fields[..fields.len().min(12)], &h[..h.len().min(12)]), case.clone());
                        break;
                    }
                }
            }
        }
    }
    st.set_extra("big_input_bytes", Json::Int(std::fs::metadata(&inp).map(|m| m.len()).unwrap_or(0) as i128));
    st.set_extra("coverage_run_s", Json::Num(t0.elapsed().as_secs_f64()));
    st
}

/// thousands of short records of uneven length: row order of the vectors file under 2..16 threads
pub fn manyrecs(ctx: &Ctx) -> Stats {
    let n = ctx.n(4, 40);
    par_cases(ctx, n, |idx, st| {
        let mut rng = Rng::keyed(ctx.seed, "c08.manyrecs", idx);
        let nrec = rng.usize(1100, 7000);
        let recs = super::c05::many_records(&mut rng, nrec);
        let cfg = CovCfg {
            k: rng.usize(2, 11),
            bin_size: rng.usize(1, 6),
            bin_count: rng.usize(2, 10),
            norm: rng.chance(1, 2),
            threads: rng.usize(2, 16),
            mem_gb: *rng.pick(&[0.5f64, 1.0, 6.0]),
            delim: " ".into(),
            alt: false,
        };
        let sc = Scratch::new(ctx, "c08m");
        let inp = sc.write("in.fa", &ser::to_fasta(&recs, &SerOpts::plain()));
        st.case(true, mix(idx) ^ hash_bytes(&recs[0].seq) ^ mix(nrec as u64));
        st.class(if cfg.mem_gb < 1.0 { "flush-per-record" } else { "flush-once" });
        let case = || Json::obj().set("cfg", cfg.json()).set("n_records", Json::u(recs.len())).set("records", super::oligo::recs_json(&recs));
        match run_cov(&inp, None, &sc.subdir("o"), &cfg) {
            Ok(d) => {
                if let Err((sig, msg)) = check_vectors(&d, &recs, &recs, &cfg) {
                    st.violate(&format!("{}:manyrecs", sig), msg, case());
                }
            }
            Err((sig, msg)) => st.violate(&sig, msg, case()),
        }
        if idx % 5 == 0 {
            st.sample(Json::obj().set("cfg", cfg.json()).set("n_records", Json::u(recs.len())));
        }
    })
}

/// a counts table of well over a megabyte (>= 100 000 distinct k-mers) in which *every* k-mer is present at least
/// bin-size times: no window may fall into bin 0, so a single k-mer that goes missing while the table is written,
/// merged or loaded (by any number of workers) shows up as a non-zero first column
pub fn bigtable(ctx: &Ctx) -> Stats {
    let n = ctx.n(4, 12);
    let mut st = Stats::new();
    for idx in 0..n {
        if ctx.expired() {
            st.truncated = true;
            break;
        }
        let mut rng = Rng::keyed(ctx.seed, "c08.bigtable", idx);
        let k = rng.usize(13, 17);
        let copies = rng.usize(5, 7);
        let bin_size = copies; // floor(c / bin_size) >= 1 for every k-mer
        let bin_count = rng.usize(3, 6);
        // quick: 120-300 thousand distinct k-mers (table of 1.4-3.5 MB); thorough: up to about 10 MB
        let nbase = if ctx.tier == Tier::Quick { rng.usize(3, 5) } else { rng.usize(4, 16) };
        let base: Vec<Rec> = (0..nbase)
            .map(|i| Rec { id: format!("t{}", i), desc: None, seq: (0..rng.usize(40_000, 60_000)).map(|_| *rng.pick(b"ACGT")).collect() })
            .collect();
        let mut recs: Vec<Rec> = Vec::new();
        for c in 0..copies {
            for r in &base {
                recs.push(Rec { id: format!("{}c{}", r.id, c), desc: None, seq: r.seq.clone() });
            }
        }
        let threads = [16usize, 8, 3, 2][(idx % 4) as usize];
        let cfg = CovCfg { k, bin_size, bin_count, norm: false, threads, mem_gb: 6.0, delim: " ".into(), alt: false };
        let sc = Scratch::new(ctx, "c08t");
        let inp = sc.write("in.fa", &ser::to_fasta(&recs, &SerOpts::plain()));
        let distinct: usize = base.iter().map(|r| r.seq.len().saturating_sub(k - 1)).sum();
        st.case(true, mix(idx) ^ hash_bytes(&base[0].seq));
        st.class(&format!("threads={}", threads));
        let case = || Json::obj().set("cfg", cfg.json()).set("n_records", Json::u(recs.len())).set("copies", Json::u(copies)).set("approx_distinct_kmers", Json::u(distinct)).set("base_records", super::oligo::recs_json(&base));
        let out_dir = sc.subdir("o");
        match run_cov(&inp, None, &out_dir, &cfg) {
            Ok(d) => {
                let table_bytes = std::fs::metadata(format!("{}/kmers.counts", out_dir)).map(|m| m.len()).unwrap_or(0);
                // first the cheap, model-free monitor: column 0 must be zero in every row
                let mut bad0 = None;
                for (i, l) in lines(&d).iter().enumerate() {
                    let first = split_fields(l, b" ").first().and_then(|f| parse_f64(f));
                    if first != Some(0.0) {
                        bad0 = Some((i, first));
                        break;
                    }
                }
                if let Some((i, v)) = bad0 {
                    st.violate("cov.bigtable.bin0", format!("row {}: {:?} windows in bin 0 although every k-mer occurs at least {} times (bin size {}); table of {} bytes, {} threads", i, v, copies, bin_size, table_bytes, threads), case());
                } else if let Err((sig, msg)) = check_vectors(&d, &recs, &recs, &cfg) {
                    st.violate(&format!("{}:bigtable", sig), msg, case());
                } else {
                    st.sample(Json::obj().set("cfg", cfg.json()).set("records", Json::u(recs.len())).set("counts_table_bytes", Json::Int(table_bytes as i128)).set("approx_distinct_kmers", Json::u(distinct)));
                }
            }
            Err((sig, msg)) => st.violate(&sig, msg, case()),
        }
    }
    st
}

/// multiplicities that are *exact multiples* of the bin size, for bin sizes 1..=300: the read is present
/// bin_size*j times, so each of its windows must land exactly in bin j (or the last bin)
pub fn exact_multiples(ctx: &Ctx) -> Stats {
    let sizes: Vec<usize> = if ctx.tier == Tier::Quick { (1..=300).step_by(7).chain([49, 98, 103, 107, 161, 255, 256, 257].into_iter()).collect() } else { (1..=300).collect() };
    let n = sizes.len() as u64;
    par_cases(ctx, n, |idx, st| {
        let mut rng = Rng::keyed(ctx.seed, "c08.exact_multiples", idx);
        let bin_size = sizes[idx as usize];
        let k = rng.usize(7, 12);
        // a read whose k-mers are pairwise distinct (checked), plus a second read with other multiplicity
        let read: Vec<u8> = loop {
            let r: Vec<u8> = (0..k + 24).map(|_| *rng.pick(b"ACGT")).collect();
            let c = model::canonical_counts(&r, k);
            if c.values().all(|&v| v == 1) {
                break r;
            }
        };
        let j = rng.usize(1, 5);
        let copies = bin_size * j;
        let other: Vec<u8> = (0..k + 10).map(|_| *rng.pick(b"ACGT")).collect();
        let mut recs: Vec<Rec> = (0..copies).map(|i| Rec { id: format!("c{}", i), desc: None, seq: read.clone() }).collect();
        recs.push(Rec { id: "other".into(), desc: None, seq: other });
        let cfg = CovCfg { k, bin_size, bin_count: rng.usize(j + 1, j + 4), norm: idx % 2 == 0, threads: rng.usize(1, 8), mem_gb: *rng.pick(&[0.5f64, 6.0]), delim: " ".into(), alt: false };
        let sc = Scratch::new(ctx, "c08x");
        let inp = sc.write("in.fa", &ser::to_fasta(&recs, &SerOpts::plain()));
        st.case(true, mix(idx) ^ mix(bin_size as u64));
        let case = || Json::obj().set("cfg", cfg.json()).set("copies_of_one_read", Json::u(copies)).set("read", Json::bytes(&read)).set("n_records", Json::u(recs.len()));
        match run_cov(&inp, None, &sc.subdir("o"), &cfg) {
            Ok(d) => {
                if let Err((sig, msg)) = check_vectors(&d, &recs, &recs, &cfg) {
                    st.violate(&format!("{}:exact_multiple", sig), format!("bin size {} x {}: {}", bin_size, j, msg), case());
                }
            }
            Err((sig, msg)) => st.violate(&sig, msg, case()),
        }
        if idx % 13 == 0 {
            st.sample(Json::obj().set("bin_size", Json::u(bin_size)).set("multiplicity", Json::u(copies)).set("k", Json::u(k)));
        }
    })
}
