//! Shared machinery for the oligo-vector properties (C03 header, C04 values, C05 order /
//! configuration independence, C14 mapped-writer write log).

use crate::common::*;
use crate::sched::{Controller, Event, Mode, RunTrace};
use crate::util::*;
use composition::oligo::OligoComputer;
use refmodel::gen::Rec;
use refmodel::json::Json;
use refmodel::model;
use refmodel::rng::Rng;
use refmodel::ser::{self, GzLayout, SerOpts};
use std::sync::{Arc, OnceLock};

pub struct Cols {
    pub codes: Vec<u64>,
    pub names: Vec<String>,
}

/// Reference column order for k (cached): sorted canonical codes and their ACGT text.
pub fn cols(k: usize) -> &'static Cols {
    static CACHE: OnceLock<Vec<OnceLock<Cols>>> = OnceLock::new();
    let v = CACHE.get_or_init(|| (0..16).map(|_| OnceLock::new()).collect());
    v[k].get_or_init(|| {
        let codes = model::canonical_list(k);
        let names = codes.iter().map(|&c| model::decode(c, k)).collect();
        Cols { codes, names }
    })
}

#[derive(Clone, Debug, PartialEq)]
pub enum Container {
    FastaSingle,
    FastaWrapped(usize),
    FastaCrlf,
    Fastq,
    FastqWrapped(usize),
}

impl Container {
    pub fn name(&self) -> String {
        match self {
            Container::FastaSingle => "fasta-single-line".into(),
            Container::FastaWrapped(w) => format!("fasta-wrapped({})", w),
            Container::FastaCrlf => "fasta-crlf".into(),
            Container::Fastq => "fastq".into(),
            Container::FastqWrapped(w) => format!("fastq-wrapped({})", w),
        }
    }
    pub fn is_fastq(&self) -> bool {
        matches!(self, Container::Fastq | Container::FastqWrapped(_))
    }
    pub fn serialise(&self, recs: &[Rec]) -> Vec<u8> {
        match self {
            Container::FastaSingle => ser::to_fasta(recs, &SerOpts::plain()),
            Container::FastaWrapped(w) => ser::to_fasta(recs, &SerOpts { wrap: Some(*w), crlf: false, final_newline: true }),
            Container::FastaCrlf => ser::to_fasta(recs, &SerOpts { wrap: None, crlf: true, final_newline: false }),
            Container::Fastq => ser::to_fastq(recs, &SerOpts::plain()),
            Container::FastqWrapped(w) => ser::to_fastq(recs, &SerOpts { wrap: Some(*w), crlf: false, final_newline: true }),
        }
    }
    pub fn suffix(&self, rng: &mut Rng) -> &'static str {
        match self {
            Container::Fastq | Container::FastqWrapped(_) => *rng.pick(&["fq", "fastq"]),
            _ => *rng.pick(&["fa", "fasta", "fna"]),
        }
    }
}

#[derive(Clone, Copy, Debug, PartialEq)]
pub enum Writer {
    /// public vectorise(): mmap when normalised and not stdin, batch otherwise
    Public,
    Mmap,
    Batch,
}

#[derive(Clone, Debug)]
pub struct OligoCfg {
    pub k: usize,
    pub threads: usize,
    pub memory: usize,
    pub header: bool,
    pub delim: String,
    pub norm: bool,
    pub writer: Writer,
}

impl OligoCfg {
    pub fn json(&self) -> Json {
        Json::obj()
            .set("k", Json::u(self.k))
            .set("threads", Json::u(self.threads))
            .set("memory", Json::Int(self.memory as i128))
            .set("header", Json::Bool(self.header))
            .set("delim", Json::bytes(self.delim.as_bytes()))
            .set("norm", Json::Bool(self.norm))
            .set("writer", Json::s(format!("{:?}", self.writer)))
    }
}

/// records of a case for replay files (complete up to 3000 records; beyond that the head only and the
/// replay says so)
pub fn recs_json(recs: &[Rec]) -> Json {
    Json::Arr(
        recs.iter()
            .take(3000)
            .map(|r| Json::obj().set("id", Json::s(r.id.clone())).set("seq", Json::bytes(&r.seq)))
            .collect(),
    )
}

/// Write the input file for a record list; returns its path.
pub fn write_input(sc: &Scratch, name: &str, recs: &[Rec], cont: &Container, gz: Option<&GzLayout>, rng: &mut Rng) -> String {
    let data = cont.serialise(recs);
    let suffix = cont.suffix(rng);
    match gz {
        None => sc.write(&format!("{}.{}", name, suffix), &data),
        Some(l) => sc.write(&format!("{}.{}.gz", name, suffix), &ser::gzip(&data, l, rng)),
    }
}

pub struct OligoRun {
    pub result: Result<Result<(), String>, String>,
    pub output: Option<Vec<u8>>,
    pub trace: Option<RunTrace>,
}

/// Run the library once.  `ctl` (if any) is installed as the event sink for the duration.
/// Every other run starts with a *stale, longer* file already sitting at the output path (as left by an
/// earlier run): a correct writer replaces it completely, so nothing may survive of it.
pub fn prepare_output(out_path: &str) {
    static CALLS: std::sync::atomic::AtomicU64 = std::sync::atomic::AtomicU64::new(0);
    let n = CALLS.fetch_add(1, std::sync::atomic::Ordering::Relaxed);
    let _ = std::fs::remove_file(out_path);
    if n % 2 == 1 {
        let mut stale = String::new();
        for i in 0..(200 + (n % 7) * 300) {
            stale.push_str(&format!("0.{:06} 0.250000 STALE{} 0.500000 0.125000 9.999999\n", i % 1_000_000, i));
        }
        let _ = std::fs::write(out_path, stale);
    }
}

pub fn run_oligo(in_path: &str, out_path: &str, cfg: &OligoCfg, ctl: Option<&Arc<Controller>>) -> OligoRun {
    prepare_output(out_path);
    if let Some(c) = ctl {
        c.install();
    }
    let result = guarded(|| {
        let mut com = OligoComputer::new(in_path.to_string(), out_path.to_string(), cfg.k);
        com.set_threads(cfg.threads);
        com.set_norm(cfg.norm);
        com.set_delim(cfg.delim.clone());
        com.set_max_memory(cfg.memory);
        com.set_header(cfg.header);
        match cfg.writer {
            Writer::Public => com.vectorise(),
            Writer::Mmap => com.verif_vectorise_mmap(),
            Writer::Batch => com.verif_vectorise_batch(),
        }
    });
    let trace = ctl.map(|c| c.finish());
    let output = std::fs::read(out_path).ok();
    OligoRun { result, output, trace }
}

/// panic text produced by the online bounds monitor (sched.rs)
pub fn is_oob_panic(p: &str) -> bool {
    p.contains("VERIF mapped write out of bounds")
}

/// Monitor over the final file: header line, one row per record in order, field count, values.
pub fn check_rows(data: &[u8], recs: &[Rec], cfg: &OligoCfg) -> Result<(), (String, String)> {
    let c = cols(cfg.k);
    let delim = cfg.delim.as_bytes();
    if data.contains(&0u8) {
        let n = data.iter().filter(|&&b| b == 0).count();
        return Err(("oligo.nul_bytes".into(), format!("{} NUL bytes in the output (unwritten mapped space)", n)));
    }
    let ls = lines(data);
    let mut rows = &ls[..];
    if cfg.header {
        if ls.is_empty() {
            return Err(("oligo.header".into(), "header requested but output is empty".into()));
        }
        let exp = c.names.join(&cfg.delim);
        if ls[0] != exp.as_bytes() {
            return Err((
                "oligo.header".into(),
                format!("header line {:?} != expected {:?}", truncate(&String::from_utf8_lossy(ls[0]), 120), truncate(&exp, 120)),
            ));
        }
        rows = &ls[1..];
    }
    if rows.len() != recs.len() {
        return Err(("oligo.rowcount".into(), format!("{} rows for {} records", rows.len(), recs.len())));
    }
    for (i, (row, rec)) in rows.iter().zip(recs.iter()).enumerate() {
        let fields: Vec<&[u8]> = if delim.is_empty() {
            if !cfg.norm {
                return Ok(()); // cannot be parsed unambiguously; never generated
            }
            row.chunks(8).collect()
        } else {
            split_fields(row, delim)
        };
        if fields.len() != c.codes.len() {
            return Err((
                "oligo.fieldcount".into(),
                format!("row {} has {} fields, {} canonical {}-mers exist", i, fields.len(), c.codes.len(), cfg.k),
            ));
        }
        let (counts, total) = model::oligo_counts(&rec.seq, cfg.k, &c.codes);
        for (j, f) in fields.iter().enumerate() {
            let v = match parse_f64(f) {
                Some(v) => v,
                None => {
                    return Err(("oligo.unparseable".into(), format!("row {} field {} = {:?}", i, j, String::from_utf8_lossy(f))))
                }
            };
            let ok = if cfg.norm { frac_matches(v, counts[j], total) } else { v == counts[j] as f64 };
            if !ok {
                return Err((
                    if cfg.norm { "oligo.value.norm" } else { "oligo.value.count" }.into(),
                    format!(
                        "row {} (record {}) column {} ({}): printed {} but the record has {} such windows of {} valid",
                        i, rec.id, j, c.names[j], String::from_utf8_lossy(f), counts[j], total
                    ),
                ));
            }
            if cfg.norm && f.len() != 8 {
                // "correct to 6 decimals" is met, but a different width would break the mapped layout:
                // reported under its own signature by the C14 monitors, not here.
            }
        }
    }
    Ok(())
}

/// Expected row length of the mapped writer for a configuration (normalised rows only).
pub fn row_len(cfg: &OligoCfg) -> usize {
    let n = cols(cfg.k).codes.len();
    n * 8 + (n - 1) * cfg.delim.len() + 1
}

pub fn header_len(cfg: &OligoCfg) -> usize {
    if cfg.header {
        cols(cfg.k).names.join(&cfg.delim).len() + 1
    } else {
        0
    }
}

/// C05 history monitor: every mm.write issued between took(n) and wrote(n) of the same worker goes
/// to header_len + n * row_len.   C14 write-log monitor: in bounds, no overlap, exact tiling.
pub fn check_write_log(events: &[Event], cfg: &OligoCfg, nrecs: usize, file_len: Option<usize>) -> Result<(u64, u64), (String, String)> {
    let hl = header_len(cfg);
    let rl = row_len(cfg);
    let mut holding: std::collections::HashMap<usize, u64> = std::collections::HashMap::new();
    let mut writes: Vec<(u64, u64)> = Vec::new();
    let mut per_record: std::collections::HashMap<u64, Vec<(u64, u64)>> = std::collections::HashMap::new();
    let mut cap: Option<u64> = None;
    let mut took_total = 0u64;
    for e in events {
        match e.site {
            "oligo.took" => {
                if e.args[0] != crate::sched::NONE {
                    holding.insert(e.worker, e.args[0]);
                    took_total += 1;
                }
            }
            "oligo.wrote" => {
                holding.remove(&e.worker);
            }
            "mm.write" => {
                let (pos, len, c) = (e.args[0], e.args[1], e.args[2]);
                if let Some(prev) = cap {
                    if prev != c {
                        return Err(("mmap.capacity_changed".into(), format!("capacity {} then {}", prev, c)));
                    }
                }
                cap = Some(c);
                if pos + len > c {
                    return Err((
                        "mmap.write_out_of_bounds".into(),
                        format!("write of {} bytes at offset {} ends at {} beyond the {}-byte mapping", len, pos, pos + len, c),
                    ));
                }
                if let Some(&n) = holding.get(&e.worker) {
                    // a row may legitimately be written in several pieces: collect them per record and
                    // judge the union below (it must be exactly the record's slot)
                    per_record.entry(n).or_default().push((pos, len));
                }
                writes.push((pos, len));
            }
            _ => {}
        }
    }
    for (n, mut pieces) in per_record {
        pieces.sort();
        let want = hl as u64 + n * rl as u64;
        let first = pieces[0].0;
        if first != want {
            return Err((
                "oligo.row_offset".into(),
                format!("row of record {} written at offset {} instead of {} (header {} + {} x {})", n, first, want, hl, n, rl),
            ));
        }
        let mut end = first;
        for (p, l) in &pieces {
            if *p != end {
                return Err(("oligo.row_offset".into(), format!("row of record {}: piece at offset {} does not continue the row (expected {})", n, p, end)));
            }
            end = p + l;
        }
        if end - first != rl as u64 {
            return Err((
                "oligo.row_length".into(),
                format!("row of record {} is {} bytes, fixed row length is {}", n, end - first, rl),
            ));
        }
    }
    let n_writes = writes.len() as u64;
    writes.sort();
    let mut end = 0u64;
    for &(p, l) in &writes {
        if p < end {
            return Err(("mmap.overlap".into(), format!("write at {} (+{}) overlaps the previous write ending at {}", p, l, end)));
        }
        if p > end {
            return Err(("mmap.gap".into(), format!("bytes {}..{} of the mapped file are never written", end, p)));
        }
        end = p + l;
    }
    let expect = (hl + nrecs * rl) as u64;
    if let Some(c) = cap {
        if end != c {
            return Err(("mmap.tiling".into(), format!("writes cover 0..{} of a {}-byte mapping", end, c)));
        }
        if c != expect {
            return Err(("mmap.size".into(), format!("mapping is {} bytes, header {} + {} records x {} = {}", c, hl, nrecs, rl, expect)));
        }
    } else if expect != 0 {
        return Err(("mmap.no_writes".into(), format!("no mapped write was logged but {} bytes are expected", expect)));
    }
    if let Some(fl) = file_len {
        if fl as u64 != expect {
            return Err(("mmap.file_size".into(), format!("output file is {} bytes, expected {}", fl, expect)));
        }
    }
    if took_total != nrecs as u64 {
        return Err(("oligo.took_count".into(), format!("{} records taken by workers, input has {}", took_total, nrecs)));
    }
    Ok((n_writes, took_total))
}

/// order of `wrote(n)` events = publication order
pub fn publication_order(events: &[Event], site: &str) -> Vec<u64> {
    events.iter().filter(|e| e.site == site).map(|e| e.args[0]).collect()
}

pub fn has_inversion(order: &[u64]) -> bool {
    order.windows(2).any(|w| w[0] > w[1])
}

pub fn mode_log() -> Mode {
    Mode::Log
}
