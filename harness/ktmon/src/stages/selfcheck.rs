//! Self-check of the harness itself (DESIGN.md §7.3): the schedule controller must (a) enumerate
//! every hook-granularity schedule of a toy worker loop and (b) reach the bad publication order of
//! a toy loop with a planted order bug; the JSON reader/writer must round-trip.

use crate::common::*;
use crate::sched::{next_prefix, toy_run, Controller, Mode, Policy};
use refmodel::json::Json;
use std::collections::HashSet;

pub fn run(_ctx: &Ctx) -> Stats {
    let mut st = Stats::new();
    for &(threads, records) in &[(2usize, 3usize), (3, 4)] {
        for buggy in [false, true] {
            let mut prefix: Vec<u32> = vec![];
            let mut orders: HashSet<Vec<u64>> = HashSet::new();
            let mut bad_seen = 0u64;
            let mut runs = 0u64;
            loop {
                let ctl = Controller::new(Mode::Controlled(Policy::First), threads, "toy.took", "toy.exit", prefix.clone());
                let out = toy_run(threads, records, buggy, &ctl);
                let tr = ctl.finish();
                runs += 1;
                st.case(true, refmodel::rng::hash_bytes(format!("{}{}{}{:?}", threads, records, buggy, tr.choices).as_bytes()));
                orders.insert(tr.choices.iter().map(|c| c.2).collect());
                let expect: Vec<u64> = (0..records as u64).collect();
                if out != expect {
                    bad_seen += 1;
                }
                if tr.aborted {
                    st.violate("HARNESS.selfcheck.watchdog", "controller watchdog fired on the toy loop".into(), Json::Null);
                    break;
                }
                match next_prefix(&tr.choices) {
                    Some(p) => prefix = p,
                    None => break,
                }
                if runs > 10_000 {
                    break;
                }
            }
            if !buggy && bad_seen > 0 {
                st.violate("HARNESS.selfcheck.false_alarm", format!("correct toy loop produced {} bad outputs", bad_seen), Json::Null);
            }
            if buggy && bad_seen == 0 {
                st.violate("HARNESS.selfcheck.missed", format!("planted order bug not reached in {} schedules (threads={}, records={})", runs, threads, records), Json::Null);
            }
            if orders.len() < 2 {
                st.violate("HARNESS.selfcheck.no_diversity", format!("only {} publication orders explored", orders.len()), Json::Null);
            }
            st.sample(Json::obj().set("threads", Json::u(threads)).set("records", Json::u(records)).set("planted_bug", Json::Bool(buggy)).set("schedules", Json::Int(runs as i128)).set("distinct_orders", Json::u(orders.len())).set("bad_outputs", Json::Int(bad_seen as i128)));
        }
    }
    // the O(n) minimiser reference must equal the brute force (it is the oracle of c09.widewindow)
    {
        use refmodel::gen::gen_seq_any;
        use refmodel::model;
        use refmodel::rng::Rng;
        let mut differs = 0u64;
        for i in 0..6000u64 {
            let mut rng = Rng::keyed(1, "selfcheck.minfast", i);
            let m = rng.usize(1, 12);
            let w = m + rng.usize(0, 40);
            let len = rng.usize(0, w + 90);
            let (_, seq) = gen_seq_any(&mut rng, len, false);
            st.case(true, refmodel::rng::hash_bytes(&seq) ^ (w * 64 + m) as u64);
            if model::minimiser_runs(&seq, w, m) != model::minimiser_runs_fast(&seq, w, m) {
                differs += 1;
            }
        }
        if differs > 0 {
            st.violate("HARNESS.selfcheck.minimiser_models_disagree", format!("brute-force and O(n) minimiser references differ on {} of 6000 cases", differs), Json::Null);
        }
    }
    // JSON round trip
    let j = Json::obj().set("a", Json::Arr(vec![Json::Int(1), Json::Num(0.5), Json::s("x\"y\\z\n\u{1F9EC}")])).set("b", Json::Bool(true)).set("c", Json::Null);
    match Json::parse(&j.to_string()) {
        Ok(back) if back == j => {}
        other => st.violate("HARNESS.selfcheck.json", format!("JSON round trip failed: {:?}", other), Json::Null),
    }
    st
}
