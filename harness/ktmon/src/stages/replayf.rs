//! Replay of file-level cases: rebuild the input from the records stored in the replay file, run the
//! library entry point with the stored configuration (and schedule, if any) and apply the stage's monitors.

use super::c07::{check_final, check_history, run_counter, CtrCfg};
use super::c08::{check_vectors, run_cov, CovCfg};
use super::c10::{check_m2s, check_s2m, run_min, MinMode};
use super::oligo::*;
use crate::common::*;
use crate::sched::{Controller, Mode, Policy};
use refmodel::gen::Rec;
use refmodel::json::{parse_bytes, Json};
use refmodel::ser::{self, SerOpts};

fn records(case: &Json, key: &str) -> Option<Vec<Rec>> {
    let arr = case.get(key)?.as_arr()?;
    Some(
        arr.iter()
            .map(|r| Rec {
                id: r.get("id").and_then(|s| s.as_str()).unwrap_or("r").to_string(),
                desc: None,
                seq: parse_bytes(r.get("seq").and_then(|s| s.as_str()).unwrap_or("")),
            })
            .collect(),
    )
}

fn geti(j: &Json, k: &str, d: i128) -> i128 {
    j.get(k).and_then(|v| v.as_i()).unwrap_or(d)
}
fn getb(j: &Json, k: &str, d: bool) -> bool {
    j.get(k).and_then(|v| v.as_bool()).unwrap_or(d)
}
fn getf(j: &Json, k: &str, d: f64) -> f64 {
    match j.get(k) {
        Some(Json::Num(f)) => *f,
        Some(Json::Int(i)) => *i as f64,
        _ => d,
    }
}

/// returns false when the stage family has no file-level replay
pub fn replay(ctx: &Ctx, stage: &str, case: &Json, st: &mut Stats) -> bool {
    let fam = stage.split('.').next().unwrap_or("");
    let recs = match records(case, "records") {
        Some(r) => r,
        None => return false,
    };
    if let Some(n) = case.get("n_records").and_then(|v| v.as_i()) {
        if n as usize != recs.len() {
            st.inconclusive(format!("the replay file stores {} of {} records: re-run the stage with the same seed instead", recs.len(), n));
            return true;
        }
    }
    let sc = Scratch::new(ctx, "replay");
    let inp = sc.write("in.fa", &ser::to_fasta(&recs, &SerOpts::plain()));
    st.case(true, 1);
    let viol = |st: &mut Stats, sig: &str, msg: String| st.violate(sig, msg, case.clone());
    if let Some(cfgj) = case.get("cfg") {
        if cfgj.get("writer").is_some() {
            // oligo family
            let cfg = OligoCfg {
                k: geti(cfgj, "k", 3) as usize,
                threads: geti(cfgj, "threads", 1) as usize,
                memory: geti(cfgj, "memory", 4 << 30) as usize,
                header: getb(cfgj, "header", false),
                delim: String::from_utf8_lossy(&parse_bytes(cfgj.get("delim").and_then(|s| s.as_str()).unwrap_or(" "))).into_owned(),
                norm: getb(cfgj, "norm", true),
                writer: match cfgj.get("writer").and_then(|s| s.as_str()).unwrap_or("Public") {
                    "Mmap" => Writer::Mmap,
                    "Batch" => Writer::Batch,
                    _ => Writer::Public,
                },
            };
            let prefix: Vec<u32> = case.get("schedule").and_then(|a| a.as_arr()).map(|a| a.iter().filter_map(|x| x.as_i()).map(|x| x as u32).collect()).unwrap_or_default();
            let mode = if prefix.is_empty() { Mode::Log } else { Mode::Controlled(Policy::First) };
            let ctl = Controller::new(mode, cfg.threads, "oligo.took", "oligo.exit", prefix);
            let run = run_oligo(&inp, &sc.path("out.kmers"), &cfg, Some(&ctl));
            match &run.result {
                Err(p) if is_oob_panic(p) => viol(st, "mmap.write_out_of_bounds", p.clone()),
                Err(p) => viol(st, &panic_sig(p), p.clone()),
                Ok(Err(e)) => viol(st, "oligo.error", e.clone()),
                Ok(Ok(())) => {
                    let data = run.output.clone().unwrap_or_default();
                    let mapped = cfg.writer == Writer::Mmap || (cfg.writer == Writer::Public && cfg.norm);
                    if mapped {
                        if let Err((sig, msg)) = check_write_log(&run.trace.as_ref().unwrap().events, &cfg, recs.len(), Some(data.len())) {
                            viol(st, &sig, msg);
                            return true;
                        }
                    }
                    if let Err((sig, msg)) = check_rows(&data, &recs, &cfg) {
                        viol(st, &sig, msg);
                    }
                }
            }
            return true;
        }
        if cfgj.get("memory_ceiling_gb").is_some() {
            let cfg = CtrCfg { k: geti(cfgj, "k", 3) as usize, threads: geti(cfgj, "threads", 1) as usize, mem_gb: getf(cfgj, "memory_ceiling_gb", 6.0), acgt: getb(cfgj, "acgt", false) };
            let ctl = Controller::new(Mode::Log, cfg.threads, "ctr.took", "ctr.exit", vec![]);
            let run = run_counter(&inp, &sc.subdir("out"), &cfg, Some(&ctl));
            match &run.result {
                Err(p) => viol(st, &panic_sig(p), p.clone()),
                Ok(()) => {
                    if let Some(tr) = &run.trace {
                        if let Err((sig, msg)) = check_history(&run, &recs, &cfg, &tr.events) {
                            viol(st, &sig, msg);
                            return true;
                        }
                    }
                    if let Err((sig, msg)) = check_final(&run, &recs, &cfg) {
                        viol(st, &sig, msg);
                    }
                }
            }
            return true;
        }
        if cfgj.get("bin_size").is_some() {
            let cfg = CovCfg {
                k: geti(cfgj, "k", 3) as usize,
                bin_size: geti(cfgj, "bin_size", 1) as usize,
                bin_count: geti(cfgj, "bin_count", 1) as usize,
                norm: getb(cfgj, "norm", true),
                threads: geti(cfgj, "threads", 1) as usize,
                mem_gb: getf(cfgj, "memory_gb", 6.0),
                delim: String::from_utf8_lossy(&parse_bytes(cfgj.get("delim").and_then(|s| s.as_str()).unwrap_or(" "))).into_owned(),
                alt: getb(cfgj, "separate_counting_input", false),
            };
            let alt = records(case, "counting_records");
            let altp = alt.as_ref().map(|a| sc.write("alt.fasta", &ser::to_fasta(a, &SerOpts::plain())));
            match run_cov(&inp, altp.as_deref(), &sc.subdir("out"), &cfg) {
                Err((sig, msg)) => viol(st, &sig, msg),
                Ok(d) => {
                    if let Err((sig, msg)) = check_vectors(&d, &recs, alt.as_deref().unwrap_or(&recs), &cfg) {
                        viol(st, &sig, msg);
                    }
                }
            }
            return true;
        }
    }
    if fam == "c10" || (case.get("w").is_some() && case.get("m").is_some() && case.get("mode").is_some()) {
        let w = geti(case, "w", 0) as usize;
        let m = geti(case, "m", 7) as usize;
        let threads = geti(case, "threads", 1) as usize;
        let mode = if case.get("mode").and_then(|s| s.as_str()).unwrap_or("S2m").contains("M2s") { MinMode::M2s } else { MinMode::S2m };
        let res = run_min(mode, w, m, &inp, &sc.path("out.txt"), threads.max(1), None);
        match &res.0 {
            Err(p) => viol(st, &panic_sig(p), p.clone()),
            Ok(()) => {
                let data = res.1.clone().unwrap_or_default();
                let r = if mode == MinMode::S2m { check_s2m(&data, &recs, w, m) } else { check_m2s(&data, &recs, w, m) };
                if let Err((sig, msg)) = r {
                    viol(st, sig.trim_start_matches("HARNESS."), msg);
                }
            }
        }
        return true;
    }
    false
}
