//! Guard-page stages: the per-sequence entry points run on slices that end exactly at (or begin exactly after)
//! an inaccessible page, so that an access outside the slice faults at once even when it cannot change any
//! output.  Values are additionally compared with the same call on an ordinary heap copy: a difference means
//! that bytes outside the slice influenced the result.
//!
//!   fence.kmers    KmerGenerator (C01, C02)
//!   fence.min      MinimiserGenerator, KmerMinimiserGenerator (C09, C18)
//!   fence.vectors  oligo / k-mer CGR / whole-sequence CGR / coverage per-record routines (C04, C11, C12, C08, C14)

use crate::common::*;
use crate::fence::{self, Arena, Side};
use composition::cgr::CgrComputer;
use composition::oligo::OligoComputer;
use composition::oligocgr::OligoCgrComputer;
use coverage::CovComputer;
use kmer::kmer::KmerGenerator;
use kmer::kmer_minimisers::KmerMinimiserGenerator;
use kmer::minimiser::MinimiserGenerator;
use refmodel::gen::{gen_len, gen_seq_any};
use refmodel::json::{parse_bytes, Json};
use refmodel::model;
use refmodel::rng::{hash_bytes, mix, Rng};
use std::cell::RefCell;
use std::collections::HashMap;

const CAP: usize = 160 * 1024;

thread_local! {
    static ARENA: RefCell<Option<Arena>> = const { RefCell::new(None) };
    static CASE_TEXT: RefCell<String> = const { RefCell::new(String::new()) };
}

fn setup(ctx: &Ctx) {
    fence::install(&current_case_path(ctx));
}

/// run `f` on the plain copy, on the slice fenced at its end and on the slice fenced at its start
fn three_ways<T: PartialEq, F: Fn(&[u8]) -> T>(seq: &[u8], case: &Json, f: F) -> Result<T, (String, String)> {
    CASE_TEXT.with(|t| {
        let mut t = t.borrow_mut();
        *t = case.to_string();
        fence::set_current(&t);
    });
    let out = ARENA.with(|a| {
        let mut a = a.borrow_mut();
        if a.as_ref().map_or(true, |x| x.capacity() < seq.len()) {
            *a = Some(Arena::new(seq.len().max(CAP)));
        }
        let arena = a.as_mut().unwrap();
        let plain = match guarded(|| f(seq)) {
            Ok(v) => v,
            Err(p) => return Err((panic_sig(&p), format!("panicked on the ordinary copy: {}", p))),
        };
        for side in [Side::End, Side::Start] {
            let fenced = arena.place(seq, side);
            match guarded(|| f(fenced)) {
                Ok(v) => {
                    if v != plain {
                        return Err((
                            format!("fence.value_depends_on_outside:{:?}", side),
                            format!("result on the slice fenced at its {:?} differs from the result on an ordinary copy: bytes outside the slice were used", side),
                        ));
                    }
                }
                Err(p) => return Err((panic_sig(&p), format!("panicked on the fenced slice ({:?}): {}", side, p))),
            }
        }
        Ok(plain)
    });
    fence::clear_current();
    out
}

fn pick_len(rng: &mut Rng, k: usize, w: Option<usize>, idx: u64) -> usize {
    match idx % 400 {
        7 => rng.usize(65_500, 66_000 + k),
        8 => rng.usize(4090, 4100 + k),
        9 | 10 => rng.usize(200, 9000),
        _ => gen_len(rng, k, w, k.max(w.unwrap_or(0)) + 80),
    }
}

pub fn kmers(ctx: &Ctx) -> Stats {
    setup(ctx);
    let n = ctx.n(120_000, 4_000_000);
    let mut st = par_cases(ctx, n, |idx, st| {
        let mut rng = Rng::keyed(ctx.seed, "fence.kmers", idx);
        let k = (idx % 31) as usize + 1;
        let len = pick_len(&mut rng, k, None, idx);
        let (class, seq) = gen_seq_any(&mut rng, len, false);
        let case = Json::obj().set("what", Json::s("kmers")).set("seq", Json::bytes(&seq)).set("k", Json::u(k));
        st.case(seq.len() >= k, hash_bytes(&seq) ^ mix(k as u64));
        st.class(class.name());
        let r = three_ways(&seq, &case, |s| {
            let all: Vec<(u64, u64)> = KmerGenerator::new(s, k).collect();
            // the adaptor paths as well (fold after next, nth, last)
            let mut it = KmerGenerator::new(s, k);
            let first = it.next();
            let folded = it.fold(0u64, |a, x| a.wrapping_mul(31).wrapping_add(x.0 ^ x.1));
            let last = KmerGenerator::new(s, k).last();
            let nth = KmerGenerator::new(s, k).nth(3);
            (all, first, folded, last, nth)
        });
        match r {
            Err((sig, msg)) => st.violate(&sig, msg, case),
            Ok((all, ..)) => {
                if all.len() != model::windows(&seq, k).len() {
                    st.violate("kmer.window_count", format!("{} items, {} valid windows", all.len(), model::windows(&seq, k).len()), case);
                } else if idx % 30_011 == 3 {
                    st.sample(Json::obj().set("k", Json::u(k)).set("len", Json::u(seq.len())).set("class", Json::s(class.name())).set("items", Json::u(all.len())));
                }
            }
        }
    });
    st.set_extra("placements_per_case", Json::s("ordinary copy, flush against a PROT_NONE page at the end, flush after a PROT_NONE page at the start"));
    st
}

pub fn min(ctx: &Ctx) -> Stats {
    setup(ctx);
    let n = ctx.n(80_000, 3_000_000);
    let mut st = par_cases(ctx, n, |idx, st| {
        let mut rng = Rng::keyed(ctx.seed, "fence.min", idx);
        let mmax = if rng.chance(1, 3) { 28 } else { 8 };
        let m = rng.usize(1, mmax);
        let extra = if rng.chance(1, 8) { 0 } else { rng.usize(0, 31 - m) };
        let w = (m + extra).clamp(m, 31);
        let len = pick_len(&mut rng, m, Some(w), idx);
        let (class, seq) = gen_seq_any(&mut rng, len, false);
        let case = Json::obj().set("what", Json::s("min")).set("seq", Json::bytes(&seq)).set("w", Json::u(w)).set("m", Json::u(m));
        st.case(seq.len() >= w, hash_bytes(&seq) ^ mix((w * 64 + m) as u64));
        st.class(class.name());
        let r = three_ways(&seq, &case, |s| {
            let plain: Vec<(u64, usize, usize)> = MinimiserGenerator::new(s, w, m).collect();
            let with: Vec<(u64, usize, usize, Vec<u64>)> = KmerMinimiserGenerator::new(s, w, m).collect();
            let mut it = MinimiserGenerator::new(s, w, m);
            let first = it.next();
            let cnt = it.count();
            let lastk = KmerMinimiserGenerator::new(s, w, m).last();
            (plain, with, first, cnt, lastk)
        });
        match r {
            Err((sig, msg)) => st.violate(&sig, msg, case),
            Ok((plain, with, ..)) => {
                let proj: Vec<(u64, usize, usize)> = with.iter().map(|x| (x.0, x.1, x.2)).collect();
                if proj != plain {
                    st.violate("kmermin.projection", "runs of the k-mer-reporting iterator differ from the plain iterator".into(), case);
                } else if idx % 20_011 == 3 {
                    st.sample(Json::obj().set("w", Json::u(w)).set("m", Json::u(m)).set("len", Json::u(seq.len())).set("runs", Json::u(plain.len())));
                }
            }
        }
    });
    st.set_extra("placements_per_case", Json::s("ordinary copy, flush against a PROT_NONE page at the end, flush after a PROT_NONE page at the start"));
    st
}

fn bits(v: &[f64]) -> Vec<u64> {
    v.iter().map(|x| x.to_bits()).collect()
}

pub fn vectors(ctx: &Ctx) -> Stats {
    setup(ctx);
    let n = ctx.n(60_000, 2_000_000);
    let oligo: Vec<(OligoComputer, OligoComputer)> = (1..=8)
        .map(|k| {
            let a = OligoComputer::new("u.fa".into(), "u.out".into(), k);
            let mut b = OligoComputer::new("u.fa".into(), "u.out".into(), k);
            b.set_norm(false);
            (a, b)
        })
        .collect();
    let ocgr: Vec<OligoCgrComputer> = (1..=7).map(|k| OligoCgrComputer::new("u.fa".into(), "u.out".into(), k, 16)).collect();
    let mut st = par_cases(ctx, n, |idx, st| {
        let mut rng = Rng::keyed(ctx.seed, "fence.vectors", idx);
        match idx % 4 {
            0 => {
                let k = rng.usize(1, 8);
                let len = pick_len(&mut rng, k, None, idx / 4);
                let (class, seq) = gen_seq_any(&mut rng, len, false);
                let case = Json::obj().set("what", Json::s("oligo")).set("seq", Json::bytes(&seq)).set("k", Json::u(k));
                st.case(seq.len() >= k, hash_bytes(&seq) ^ mix(k as u64));
                st.class("oligo.vectorise_one");
                st.class(class.name());
                let (cn, cr) = &oligo[k - 1];
                if let Err((sig, msg)) = three_ways(&seq, &case, |s| (bits(&cn.verif_vectorise_one(s)), bits(&cr.verif_vectorise_one(s)))) {
                    st.violate(&sig, msg, case);
                }
            }
            1 => {
                let k = rng.usize(1, 7);
                let len = pick_len(&mut rng, k, None, idx / 4);
                let (class, seq) = gen_seq_any(&mut rng, len, false);
                let case = Json::obj().set("what", Json::s("oligocgr")).set("seq", Json::bytes(&seq)).set("k", Json::u(k));
                st.case(seq.len() >= k, hash_bytes(&seq) ^ mix(k as u64 + 100));
                st.class("oligocgr.vectorise_one");
                st.class(class.name());
                let c = &ocgr[k - 1];
                let r = three_ways(&seq, &case, |s| {
                    c.verif_vectorise_one(s).map(|v| v.iter().map(|(p, f)| (p.0.to_bits(), p.1.to_bits(), f.to_bits())).collect::<Vec<_>>())
                });
                if let Err((sig, msg)) = r {
                    st.violate(&sig, msg, case);
                }
            }
            2 => {
                // whole-sequence CGR: nucleotide text, sometimes with one foreign byte (refusal path)
                let len = pick_len(&mut rng, 1, None, idx / 4);
                let mut seq: Vec<u8> = (0..len).map(|_| *rng.pick(b"ACGTUacgtu")).collect();
                let foreign = !seq.is_empty() && rng.chance(1, 4);
                if foreign {
                    let mid = rng.usize(0, seq.len() - 1);
                    let p = *rng.pick(&[0usize, seq.len() - 1, mid]);
                    seq[p] = *rng.pick(b"NnXR-*\n >@");
                }
                let s_size = *rng.pick(&[1usize, 2, 16, 1000, 1 << 20]);
                let case = Json::obj().set("what", Json::s("cgr")).set("seq", Json::bytes(&seq)).set("S", Json::u(s_size));
                st.case(!seq.is_empty(), hash_bytes(&seq) ^ mix(s_size as u64 + 200));
                st.class(if foreign { "cgr.vectorise_one(foreign byte)" } else { "cgr.vectorise_one" });
                let r = three_ways(&seq, &case, |s| {
                    let c = CgrComputer::new("unused".into(), "unused".into(), s_size);
                    c.verif_vectorise_one(s).map(|v| v.iter().map(|p| (p.0.to_bits(), p.1.to_bits())).collect::<Vec<_>>()).map_err(|_| ())
                });
                match r {
                    Err((sig, msg)) => st.violate(&sig, msg, case),
                    Ok(res) => {
                        if res.is_ok() == foreign {
                            st.violate(
                                if foreign { "cgr.accepts_foreign" } else { "cgr.rejected_valid" },
                                format!("foreign byte present: {}, accepted: {}", foreign, res.is_ok()),
                                case,
                            );
                        }
                    }
                }
            }
            _ => {
                let k = rng.usize(1, 31);
                let bin_count = rng.usize(1, 40);
                let bin_size = rng.usize(1, 300);
                let len = pick_len(&mut rng, k, None, idx / 4).min(20_000);
                let (class, seq) = gen_seq_any(&mut rng, len, false);
                let mut counts: HashMap<u64, u32> = HashMap::new();
                for c in model::canonical_stream(&seq, k) {
                    let e = counts.entry(c).or_insert(0);
                    *e = e.saturating_add(rng.range(1, 400) as u32);
                }
                let case = Json::obj()
                    .set("what", Json::s("coverage"))
                    .set("seq", Json::bytes(&seq))
                    .set("k", Json::u(k))
                    .set("bin_size", Json::u(bin_size))
                    .set("bin_count", Json::u(bin_count));
                st.case(seq.len() >= k, hash_bytes(&seq) ^ mix(k as u64 + 300) ^ mix(bin_count as u64));
                st.class("coverage.vectorise_one");
                st.class(class.name());
                let r = three_ways(&seq, &case, |s| {
                    let mut cov = CovComputer::new("u.fa".into(), "u".into(), k, bin_size, bin_count);
                    cov.set_norm(false);
                    bits(&cov.verif_vectorise_one(s, &counts))
                });
                if let Err((sig, msg)) = r {
                    st.violate(&sig, msg, case);
                }
            }
        }
        if idx % 15_013 == 5 {
            st.sample(Json::obj().set("i", Json::Int(idx as i128)).set("site", Json::u((idx % 4) as usize)));
        }
    });
    st.set_extra("placements_per_case", Json::s("ordinary copy, flush against a PROT_NONE page at the end, flush after a PROT_NONE page at the start"));
    st
}

/// replay of a recorded case (crash record or value difference): runs the same three placements
pub fn replay(case: &Json, st: &mut Stats, ctx: &Ctx) {
    setup(ctx);
    let seq = parse_bytes(case.get("seq").and_then(|s| s.as_str()).unwrap_or(""));
    let geti = |n: &str, d: usize| case.get(n).and_then(|v| v.as_i()).map_or(d, |v| v as usize);
    let what = case.get("what").and_then(|s| s.as_str()).unwrap_or("kmers").to_string();
    st.case(true, hash_bytes(&seq));
    let r: Result<(), (String, String)> = match what.as_str() {
        "kmers" => {
            let k = geti("k", 1);
            three_ways(&seq, case, |s| KmerGenerator::new(s, k).collect::<Vec<_>>()).map(|_| ())
        }
        "min" => {
            let (w, m) = (geti("w", 1), geti("m", 1));
            three_ways(&seq, case, |s| {
                (MinimiserGenerator::new(s, w, m).collect::<Vec<_>>(), KmerMinimiserGenerator::new(s, w, m).collect::<Vec<_>>())
            })
            .map(|_| ())
        }
        "oligo" => {
            let k = geti("k", 1);
            let c = OligoComputer::new("u.fa".into(), "u.out".into(), k);
            three_ways(&seq, case, |s| bits(&c.verif_vectorise_one(s))).map(|_| ())
        }
        "oligocgr" => {
            let k = geti("k", 1);
            let c = OligoCgrComputer::new("u.fa".into(), "u.out".into(), k, 16);
            three_ways(&seq, case, |s| c.verif_vectorise_one(s).map(|v| v.len())).map(|_| ())
        }
        "cgr" => {
            let s_size = geti("S", 16);
            three_ways(&seq, case, |s| CgrComputer::new("unused".into(), "unused".into(), s_size).verif_vectorise_one(s).map(|v| v.len()).map_err(|_| ())).map(|_| ())
        }
        _ => {
            let (k, bs, bc) = (geti("k", 1), geti("bin_size", 1), geti("bin_count", 1));
            let mut counts: HashMap<u64, u32> = HashMap::new();
            for c in model::canonical_stream(&seq, k) {
                *counts.entry(c).or_insert(0) += 1;
            }
            three_ways(&seq, case, |s| {
                let mut cov = CovComputer::new("u.fa".into(), "u".into(), k, bs, bc);
                cov.set_norm(false);
                bits(&cov.verif_vectorise_one(s, &counts))
            })
            .map(|_| ())
        }
    };
    if let Err((sig, msg)) = r {
        st.violate(&sig, msg, case.clone());
    }
}
