//! C01 — k-mer iterator yields exactly the valid windows, in order, 2-bit encoded.
//! Observation point: kmer::kmer::KmerGenerator::new(seq, k) collected.
//! Oracle: refmodel::model::windows (text level).  The reverse component is C02's business.

use crate::common::*;
use kmer::kmer::KmerGenerator;
use refmodel::gen::{gen_len, gen_seq_any};
use refmodel::json::{parse_bytes, Json};
use refmodel::model;
use refmodel::rng::{hash_bytes, mix, Rng};

fn case_json(seq: &[u8], k: usize) -> Json {
    Json::obj().set("seq", Json::bytes(seq)).set("k", Json::u(k))
}

fn key(seq: &[u8], k: usize) -> u64 {
    hash_bytes(seq) ^ refmodel::rng::mix(k as u64)
}

/// The monitor: returns Some((sig, msg)) on a refutation.
pub fn check(seq: &[u8], k: usize) -> Option<(String, String)> {
    let exp = model::windows(seq, k);
    let got = match guarded(|| KmerGenerator::new(seq, k).collect::<Vec<(u64, u64)>>()) {
        Ok(g) => g,
        Err(p) => return Some((panic_sig(&p), format!("iterator panicked: {}", p))),
    };
    let limit: u128 = 1u128 << (2 * k);
    for (i, g) in got.iter().enumerate() {
        if (g.0 as u128) >= limit {
            return Some(("kmer.code_out_of_range".into(), format!("item {} forward code {} >= 4^{}", i, g.0, k)));
        }
    }
    if got.len() != exp.len() {
        return Some((
            "kmer.window_count".into(),
            format!("iterator yielded {} items, {} valid windows exist", got.len(), exp.len()),
        ));
    }
    for (i, (g, e)) in got.iter().zip(exp.iter()).enumerate() {
        if g.0 != e.1 {
            return Some((
                "kmer.forward_code".into(),
                format!("item {} (window at {}) forward code {} != expected {}", i, e.0, g.0, e.1),
            ));
        }
        // "each item is the pair (forward code, reverse-strand code)": the second component of the very window
        if g.1 != model::rc_code(e.1, k) {
            return Some((
                "kmer.reverse_component".into(),
                format!("item {} (window at {}): reverse-strand code {} but the reverse complement of the window encodes to {}", i, e.0, g.1, model::rc_code(e.1, k)),
            ));
        }
    }
    None
}

/// The iterator protocol beyond `next()` in a loop: the same items must come out whatever std adaptor
/// consumes the iterator (fold-based ones after some `next()` calls, count, last, nth, skip), and an
/// exhausted iterator yields nothing more.
pub fn check_protocol(seq: &[u8], k: usize) -> Option<(String, String)> {
    let exp: Vec<u64> = model::windows(seq, k).into_iter().map(|w| w.1).collect();
    let r = guarded(|| {
        for j in [1usize, 2, exp.len() / 2, exp.len()] {
            if j > exp.len() {
                continue;
            }
            let mut it = KmerGenerator::new(seq, k);
            for _ in 0..j {
                it.next();
            }
            let rest: Vec<u64> = it.fold(Vec::new(), |mut v, x| {
                v.push(x.0);
                v
            });
            if rest != exp[j..] {
                return Some(("kmer.protocol.fold_after_next".to_string(), format!("after {} next() calls, fold() delivers {} items, {} remain", j, rest.len(), exp.len() - j)));
            }
        }
        let mut it = KmerGenerator::new(seq, k);
        it.next();
        let c = it.count();
        if c != exp.len().saturating_sub(1) {
            return Some(("kmer.protocol.count".to_string(), format!("count() after one next() = {}, expected {}", c, exp.len().saturating_sub(1))));
        }
        if KmerGenerator::new(seq, k).last().map(|x| x.0) != exp.last().copied() {
            return Some(("kmer.protocol.last".to_string(), "last() differs from the last valid window".to_string()));
        }
        let n = exp.len() / 3;
        if KmerGenerator::new(seq, k).nth(n).map(|x| x.0) != exp.get(n).copied() {
            return Some(("kmer.protocol.nth".to_string(), format!("nth({}) differs", n)));
        }
        let sk: Vec<u64> = KmerGenerator::new(seq, k).skip(1).step_by(2).map(|x| x.0).collect();
        let want: Vec<u64> = exp.iter().skip(1).step_by(2).copied().collect();
        if sk != want {
            return Some(("kmer.protocol.skip_step".to_string(), "skip(1).step_by(2) differs".to_string()));
        }
        let mut it = KmerGenerator::new(seq, k);
        while it.next().is_some() {}
        if it.next().is_some() || it.next().is_some() {
            return Some(("kmer.protocol.after_end".to_string(), "an exhausted iterator yielded another item".to_string()));
        }
        // two generators alive on one thread, advanced in turn: each must behave as if it were alone
        let k2 = if k < 31 { k + 1 } else { k - 1 }.max(1);
        let exp2: Vec<u64> = model::windows(seq, k2).into_iter().map(|w| w.1).collect();
        let mut a = KmerGenerator::new(seq, k);
        let mut b = KmerGenerator::new(seq, k2);
        let (mut ga, mut gb) = (Vec::new(), Vec::new());
        loop {
            let x = a.next();
            let y = b.next();
            if let Some(x) = x {
                ga.push(x.0);
            }
            if let Some(y) = y {
                gb.push(y.0);
            }
            if x.is_none() && y.is_none() {
                break;
            }
        }
        if ga != exp || gb != exp2 {
            return Some(("kmer.protocol.interleaved_generators".to_string(), format!("two generators (k={} and k={}) advanced in turn: {} / {} items, {} / {} when each runs alone", k, k2, ga.len(), gb.len(), exp.len(), exp2.len())));
        }
        None
    });
    match r {
        Ok(v) => v,
        Err(p) => Some((panic_sig(&p), format!("iterator panicked under an adaptor: {}", p))),
    }
}

fn judge(st: &mut Stats, seq: &[u8], k: usize) {
    let nontrivial = seq.len() >= k;
    st.case(nontrivial, key(seq, k));
    if let Some((sig, msg)) = check(seq, k) {
        st.violate(&sig, msg, case_json(seq, k));
    } else if seq.len() < 4000 && (st.evaluations % 8 == 0) {
        if let Some((sig, msg)) = check_protocol(seq, k) {
            st.violate(&sig, msg, case_json(seq, k));
        }
        st.class("protocol-checked");
    }
}

const SYMS: &[u8] = b"AcGtUN-";

fn nth_string(mut idx: u64, maxlen: usize) -> Vec<u8> {
    // strings ordered by length, then lexicographic in SYMS
    let base = SYMS.len() as u64;
    let mut len = 0usize;
    let mut count = 1u64;
    while idx >= count && len < maxlen {
        idx -= count;
        count *= base;
        len += 1;
    }
    let mut s = vec![0u8; len];
    for j in (0..len).rev() {
        s[j] = SYMS[(idx % base) as usize];
        idx /= base;
    }
    s
}

fn total_strings(maxlen: usize) -> u64 {
    let base = SYMS.len() as u64;
    let mut t = 0;
    let mut c = 1;
    for _ in 0..=maxlen {
        t += c;
        c *= base;
    }
    t
}

/// (i) bounded-exhaustive: all strings over 7 symbols up to length L, k = 1..=4 and one k > L.
pub fn exhaustive(ctx: &Ctx) -> Stats {
    let maxlen = ctx.pick(7usize, 9usize);
    let total = total_strings(maxlen);
    let ks = [1usize, 2, 3, 4];
    let mut st = par_cases(ctx, total, |idx, st| {
        let s = nth_string(idx, maxlen);
        for &k in &ks {
            judge(st, &s, k);
        }
        if idx % 100_003 == 0 {
            st.sample(case_json(&s, 3));
        }
    });
    st.set_extra("exhaustive", Json::Bool(!st.truncated));
    st.set_extra("alphabet", Json::s("AcGtUN-"));
    st.set_extra("max_len", Json::u(maxlen));
    st.set_extra("k_values", Json::s("1..=4"));
    st
}

/// (ii) random: every k in 1..=31, all content classes including arbitrary bytes 0x04..=0xFF.
pub fn random(ctx: &Ctx) -> Stats {
    let n = ctx.n(300_000, 20_000_000);
    let mut st = par_cases(ctx, n, |idx, st| {
        let mut rng = Rng::keyed(ctx.seed, "c01.random", idx);
        let k = (idx % 31) as usize + 1;
        let maxlen = if rng.chance(1, 20) { 400 } else { k + 60 };
        let len = gen_len(&mut rng, k, None, maxlen);
        let (class, seq) = gen_seq_any(&mut rng, len, false);
        st.class(&format!("k={}", k));
        st.class(class.name());
        judge(st, &seq, k);
        if idx % 50_021 == 7 {
            st.sample(case_json(&seq, k).set("class", Json::s(class.name())));
        }
    });
    st.set_extra("k_values", Json::s("1..=31 (idx mod 31)"));
    st
}

/// (iii) directed table coverage: each byte value 0x04..=0xFF alone between two clean k-runs,
/// for every k in 1..=31; evidence lists which bytes behaved as which base / as ambiguous.
pub fn bytes(ctx: &Ctx) -> Stats {
    let mut st = Stats::new();
    let mut seen_as: [Vec<u8>; 5] = Default::default();
    let mut rng = Rng::keyed(ctx.seed, "c01.bytes", 0);
    for k in 1..=31usize {
        for b in 4..=255u8 {
            let left: Vec<u8> = (0..k).map(|_| *rng.pick(b"ACGT")).collect();
            let right: Vec<u8> = (0..k).map(|_| *rng.pick(b"ACGT")).collect();
            let mut seq = left.clone();
            seq.push(b);
            seq.extend_from_slice(&right);
            judge(&mut st, &seq, k);
            if k == 1 {
                // classify how the implementation treated byte b (k = 1: code of the middle item)
                if let Ok(items) = guarded(|| KmerGenerator::new(&seq, 1).collect::<Vec<_>>()) {
                    if items.len() == 3 {
                        let d = items[1].0.min(3) as usize;
                        seen_as[d].push(b);
                    } else {
                        seen_as[4].push(b);
                    }
                }
            }
        }
    }
    let show = |v: &Vec<u8>| Json::s(String::from_utf8_lossy(v).into_owned());
    st.set_extra("bytes_read_as_A", show(&seen_as[0]));
    st.set_extra("bytes_read_as_C", show(&seen_as[1]));
    st.set_extra("bytes_read_as_G", show(&seen_as[2]));
    st.set_extra("bytes_read_as_T", show(&seen_as[3]));
    st.set_extra("bytes_read_as_ambiguous", Json::u(seen_as[4].len()));
    st.sample(Json::obj().set("k", Json::u(5)).set("seq", Json::s("ACGTA\\x80CCGTA (byte 0x80 between two clean 5-runs)")));
    st
}

pub fn replay(case: &Json, st: &mut Stats) {
    let seq = parse_bytes(case.get("seq").and_then(|s| s.as_str()).unwrap_or(""));
    let k = case.get("k").and_then(|k| k.as_i()).unwrap_or(1) as usize;
    judge(st, &seq, k);
}

/// very long runs of ambiguous bytes / very long clean runs (depth- or width-dependent behaviour of the
/// iterator: recursion, counters): a dozen directed cases per k class; a stack overflow kills the stage
/// process and is reported by the driver from the current-case record
pub fn longruns(ctx: &Ctx) -> Stats {
    let mut st = Stats::new();
    let runs: &[usize] = if ctx.tier == Tier::Quick { &[12_000, 70_000, 400_000] } else { &[12_000, 70_000, 400_000, 3_000_000] };
    let mut i = 0u64;
    for &run in runs {
        for &k in &[1usize, 4, 15, 31] {
            for &amb in &[b'N', 0xC3u8] {
                i += 1;
                let mut rng = Rng::keyed(ctx.seed, "c01.longruns", i);
                let mut seq: Vec<u8> = (0..k + 3).map(|_| *rng.pick(b"ACGT")).collect();
                seq.extend(std::iter::repeat(amb).take(run));
                seq.extend((0..k + 2).map(|_| *rng.pick(b"acgu")));
                // and a long clean stretch in the same sequence
                seq.push(b'-');
                seq.extend((0..(run / 2).min(300_000)).map(|_| *rng.pick(b"ACGT")));
                let case = Json::obj().set("layout", Json::s(format!("{} clean + {} x 0x{:02x} + {} clean + '-' + {} clean", k + 3, run, amb, k + 2, (run / 2).min(300_000)))).set("k", Json::u(k));
                note_current_case(ctx, &case);
                st.case(true, mix(i) ^ mix(run as u64));
                st.class(&format!("ambiguous-run={}", run));
                if let Some((sig, msg)) = check(&seq, k) {
                    st.violate(&format!("{}:longrun", sig), msg, case.clone());
                }
                if i % 7 == 1 {
                    st.sample(case);
                }
            }
        }
    }
    st
}

/// gaps of identical ambiguous bytes of every length 0..=140 (and around 255..258) between two clean
/// stretches, for several k: "fast-forward" style handling of ambiguous runs must not depend on the gap length
pub fn gaps(ctx: &Ctx) -> Stats {
    let mut st = Stats::new();
    let lens: Vec<usize> = (0..=140).chain(250..=260).chain([511, 512, 513, 1023, 1024, 1025]).collect();
    let mut i = 0u64;
    for &k in &[1usize, 2, 5, 16, 31] {
        for &gap in &lens {
            for &amb in &[b'N', b'-', 0x80u8] {
                i += 1;
                let mut rng = Rng::keyed(ctx.seed, "c01.gaps", i);
                let mut seq: Vec<u8> = (0..k + rng.usize(0, 3)).map(|_| *rng.pick(b"ACGT")).collect();
                seq.extend(std::iter::repeat(amb).take(gap));
                seq.extend((0..k + rng.usize(0, 5)).map(|_| *rng.pick(b"ACGTacgu")));
                st.case(true, mix(i));
                if let Some((sig, msg)) = check(&seq, k) {
                    st.violate(&format!("{}:gap", sig), format!("gap of {} x 0x{:02x}: {}", gap, amb, msg), case_json(&seq, k));
                }
                if i % 401 == 3 {
                    st.sample(Json::obj().set("k", Json::u(k)).set("gap_len", Json::u(gap)).set("gap_byte", Json::s(format!("0x{:02x}", amb))));
                }
            }
        }
    }
    st.set_extra("gap_lengths", Json::s("0..=140, 250..=260, 511..513, 1023..1025"));
    st
}

/// thorough only: single sequences longer than 2^31 and 2^32 bases (position / length arithmetic in narrower
/// integer types).  One pass: first items against the reference on the prefix, total count against the
/// analytic count, last items against the reference on the tail slice.
pub fn gigabases(ctx: &Ctx) -> Stats {
    let mut st = Stats::new();
    let mut rng = Rng::keyed(ctx.seed, "c01.gigabases", 0);
    let block: Vec<u8> = (0..1 << 20).map(|_| *rng.pick(b"ACGT")).collect();
    for &len in &[(1usize << 31) + 1000, (1usize << 32) + 1000] {
        if ctx.expired() {
            st.truncated = true;
            break;
        }
        let k = 21usize;
        let mut seq: Vec<u8> = Vec::with_capacity(len);
        while seq.len() < len {
            let n = (len - seq.len()).min(block.len());
            seq.extend_from_slice(&block[..n]);
        }
        let n_pos = [len / 2, len - 500];
        for &p in &n_pos {
            seq[p] = b'N';
        }
        let case = Json::obj().set("layout", Json::s(format!("{} bases: a random 1 MiB block repeated, N at {:?}", len, n_pos))).set("k", Json::u(k));
        note_current_case(ctx, &case);
        st.case(true, mix(len as u64));
        // expected number of windows: clean segments [0, p1), (p1, p2), (p2, len)
        let segs = [n_pos[0], n_pos[1] - n_pos[0] - 1, len - n_pos[1] - 1];
        let expected: u64 = segs.iter().map(|&l| if l >= k { (l - k + 1) as u64 } else { 0 }).sum();
        let r = guarded(|| {
            let mut it = KmerGenerator::new(&seq, k);
            let mut first: Vec<(u64, u64)> = Vec::new();
            let mut last: std::collections::VecDeque<(u64, u64)> = std::collections::VecDeque::new();
            let mut total = 0u64;
            for item in &mut it {
                total += 1;
                if first.len() < 300 {
                    first.push(item);
                }
                if last.len() == 300 {
                    last.pop_front();
                }
                last.push_back(item);
            }
            (first, last, total)
        });
        match r {
            Err(p) => st.violate(&panic_sig(&p), p, case.clone()),
            Ok((first, last, total)) => {
                let exp_first = model::kmer_pairs(&seq[..300 + k - 1], k);
                let tail = model::kmer_pairs(&seq[len - 400..], k);
                let exp_last: Vec<(u64, u64)> = tail[tail.len().saturating_sub(300)..].to_vec();
                if total != expected {
                    st.violate("kmer.window_count:gigabases", format!("iterator yielded {} items, {} valid windows exist ({} bases)", total, expected, len), case.clone());
                } else if first != exp_first {
                    st.violate("kmer.forward_code:gigabases", "the first 300 items differ from the reference".into(), case.clone());
                } else if last.iter().copied().collect::<Vec<_>>() != exp_last {
                    st.violate("kmer.forward_code:gigabases", "the last 300 items differ from the reference on the tail".into(), case.clone());
                }
            }
        }
        st.sample(case);
    }
    st
}
