//! C05 — oligo rows follow input order for any threads, batching, writer path, container;
//! a header adds exactly one first line.
//!
//! History monitor over the hook log of the mapped writer (offset of every row write), reference
//! rows, and byte equality against a baseline configuration.  Schedules: exhaustive DFS at hook
//! granularity for tiny configurations, seeded random / PCT-style, free-running with perturbation.

use super::oligo::*;
use crate::common::*;
use crate::sched::{next_prefix, Controller, Mode, Policy};
use crate::util::*;
use refmodel::gen::{gen_records, gen_seq, Rec, SeqClass};
use refmodel::json::Json;
use refmodel::model;
use refmodel::rng::{hash_bytes, mix, Rng};
use refmodel::ser::GzLayout;
use std::collections::HashSet;

/// records with pairwise different rows (so a misplaced row is visible)
pub fn distinct_records(rng: &mut Rng, n: usize, k: usize, with_empty: bool) -> Vec<Rec> {
    let mut out: Vec<Rec> = Vec::new();
    let mut seen: HashSet<Vec<u64>> = HashSet::new();
    let c = cols(k);
    let mut guard = 0;
    while out.len() < n && guard < n * 50 {
        guard += 1;
        let len = rng.usize(k + 2, k + 40);
        let class = *rng.pick(&[SeqClass::Uniform, SeqClass::MixedCaseU, SeqClass::IsolatedN, SeqClass::TwoLetter, SeqClass::Tandem]);
        let seq = gen_seq(rng, class, len, true);
        let (counts, total) = model::oligo_counts(&seq, k, &c.codes);
        if total == 0 {
            continue;
        }
        // distinct normalised rows need distinct count *ratios*; distinct count vectors with distinct totals suffice in practice
        let mut keyv = counts.clone();
        keyv.push(total);
        if seen.insert(keyv) {
            out.push(Rec { id: format!("r{}", out.len()), desc: None, seq });
        }
    }
    if with_empty && out.len() > 2 {
        // one record without any valid window in the middle (all-zero row)
        let mid = out.len() / 2;
        out[mid].seq = b"NNNN".to_vec();
    }
    out
}

fn sched_case(ctx: &Ctx, st: &mut Stats, sc: &Scratch, recs: &[Rec], cfg: &OligoCfg, inp: &str, mode: Mode, prefix: Vec<u32>, tag: &str, orders: &mut HashSet<Vec<u64>>) -> Option<Vec<(u32, u32, u64)>> {
    let outp = sc.path("out.kmers");
    let ctl = Controller::new(mode, cfg.threads, "oligo.took", "oligo.exit", prefix);
    let run = run_oligo(inp, &outp, cfg, Some(&ctl));
    let trace = run.trace.unwrap();
    let case = |choices: &[(u32, u32, u64)]| {
        Json::obj()
            .set("cfg", cfg.json())
            .set("records", recs_json(recs))
            .set("schedule", Json::Arr(choices.iter().map(|c| Json::Int(c.1 as i128)).collect()))
            .set("published_ordinals", Json::Arr(choices.iter().map(|c| Json::Int(c.2 as i128)).collect()))
            .set("mode", Json::s(tag))
    };
    let order = publication_order(&trace.events, "oligo.wrote");
    let nontrivial = order.len() >= 2;
    st.case(nontrivial, hash_bytes(format!("{}|{:?}|{}|{}", tag, order, cfg.threads, recs.len()).as_bytes()));
    match &run.result {
        Err(p) if is_oob_panic(p) => {
            st.violate("mmap.write_out_of_bounds", p.clone(), case(&trace.choices));
            return None;
        }
        Err(p) => {
            st.violate(&panic_sig(p), format!("mapped writer panicked: {}", p), case(&trace.choices));
            return None;
        }
        Ok(Err(e)) => {
            st.violate("oligo.error", format!("vectorise returned Err({})", e), case(&trace.choices));
            return None;
        }
        _ => {}
    }
    if trace.aborted {
        st.inconclusive(format!("{}: controller watchdog fired (threads={}, records={})", tag, cfg.threads, recs.len()));
        return None;
    }
    if trace.events.iter().all(|e| e.site != "oligo.took") {
        st.inconclusive(format!("{}: hook oligo.took never reached", tag));
        return None;
    }
    if has_inversion(&order) {
        st.class("runs-with-publication-inversion");
    }
    orders.insert(order);
    let data = run.output.unwrap_or_default();
    if let Err((sig, msg)) = check_write_log(&trace.events, cfg, recs.len(), Some(data.len())) {
        st.violate(&sig, msg, case(&trace.choices));
        return Some(trace.choices);
    }
    if let Err((sig, msg)) = check_rows(&data, recs, cfg) {
        st.violate(&sig, msg, case(&trace.choices));
    }
    let _ = ctx;
    Some(trace.choices)
}

/// exhaustive DFS over hook-granularity schedules for tiny configurations
pub fn sched_exhaustive(ctx: &Ctx) -> Stats {
    let mut st = Stats::new();
    let configs: &[(usize, usize)] = if ctx.tier == Tier::Quick { &[(2, 3), (2, 5), (3, 4)] } else { &[(2, 3), (2, 5), (3, 4), (3, 6), (4, 6), (2, 8), (4, 5)] };
    let mut summary = Json::arr();
    for (ci, &(threads, nrec)) in configs.iter().enumerate() {
        let mut rng = Rng::keyed(ctx.seed, "c05.sched_exhaustive", ci as u64);
        let k = rng.usize(2, 3);
        let recs = distinct_records(&mut rng, nrec, k, ci % 2 == 1);
        let cfg = OligoCfg { k, threads, memory: 4 << 30, header: ci % 2 == 0, delim: " ".into(), norm: true, writer: Writer::Mmap };
        let sc = Scratch::new(ctx, "c05x");
        let inp = write_input(&sc, "in", &recs, &Container::FastaSingle, None, &mut rng);
        let mut prefix: Vec<u32> = vec![];
        let mut orders = HashSet::new();
        let mut runs = 0u64;
        let mut complete = true;
        loop {
            if ctx.expired() || runs > 200_000 {
                st.truncated = true;
                complete = false;
                break;
            }
            let choices = sched_case(ctx, &mut st, &sc, &recs, &cfg, &inp, Mode::Controlled(Policy::First), prefix.clone(), "exhaustive", &mut orders);
            runs += 1;
            match choices.as_deref().and_then(next_prefix) {
                Some(p) => prefix = p,
                None => {
                    if choices.is_none() {
                        complete = false;
                    }
                    break;
                }
            }
        }
        summary.push(
            Json::obj()
                .set("threads", Json::u(threads))
                .set("records", Json::u(nrec))
                .set("schedules_executed", Json::Int(runs as i128))
                .set("distinct_publication_orders", Json::u(orders.len()))
                .set("all_schedules_enumerated", Json::Bool(complete)),
        );
        st.sample(Json::obj().set("cfg", cfg.json()).set("records", Json::u(nrec)).set("schedules", Json::Int(runs as i128)).set("example_order", Json::Arr(orders.iter().next().map(|o| o.iter().map(|&x| Json::Int(x as i128)).collect()).unwrap_or_default())));
    }
    st.set_extra("exhaustive", Json::Bool(!st.truncated));
    st.set_extra("configurations", summary);
    st
}

/// seeded random and PCT-style schedules, larger thread and record counts
pub fn sched_random(ctx: &Ctx) -> Stats {
    let mut st = Stats::new();
    let n = ctx.n(60, 2500);
    let mut orders = HashSet::new();
    for i in 0..n {
        if ctx.expired() {
            st.truncated = true;
            break;
        }
        let mut rng = Rng::keyed(ctx.seed, "c05.sched_random", i);
        let threads = rng.usize(2, 16);
        let nrec = rng.usize(threads, 120);
        let k = rng.usize(1, 4);
        let with_empty = rng.chance(1, 3);
        let recs = distinct_records(&mut rng, nrec, k.max(2), with_empty);
        let cfg = OligoCfg {
            k: k.max(2),
            threads,
            memory: 4 << 30,
            header: rng.chance(1, 2),
            delim: rng.pick(&[" ", ",", "\t"]).to_string(),
            norm: true,
            writer: Writer::Mmap,
        };
        let sc = Scratch::new(ctx, "c05r");
        let inp = write_input(&sc, "in", &recs, &Container::FastaSingle, None, &mut rng);
        let mode = if i % 2 == 0 {
            Mode::Controlled(Policy::Random(rng.next_u64()))
        } else {
            Mode::Controlled(Policy::Pct { seed: rng.next_u64(), change_every: rng.range(3, 40) as u32 })
        };
        st.class(&format!("threads={}", threads));
        sched_case(ctx, &mut st, &sc, &recs, &cfg, &inp, mode, vec![], if i % 2 == 0 { "random" } else { "pct" }, &mut orders);
    }
    st.set_extra("distinct_publication_orders", Json::u(orders.len()));
    st
}

/// free-running workers, hash-determined sleeps at the hook sites
pub fn free(ctx: &Ctx) -> Stats {
    let mut st = Stats::new();
    let n = ctx.n(150, 5000);
    let mut orders = HashSet::new();
    for i in 0..n {
        if ctx.expired() {
            st.truncated = true;
            break;
        }
        let mut rng = Rng::keyed(ctx.seed, "c05.free", i);
        let threads = rng.usize(2, 16);
        let nrec = rng.usize(2, 80);
        let k = rng.usize(2, 4);
        let with_empty = rng.chance(1, 3);
        let recs = distinct_records(&mut rng, nrec, k, with_empty);
        let cfg = OligoCfg {
            k,
            threads,
            memory: 4 << 30,
            header: rng.chance(1, 2),
            delim: rng.pick(&[" ", ",", "\t"]).to_string(),
            norm: true,
            writer: Writer::Mmap,
        };
        let sc = Scratch::new(ctx, "c05f");
        let inp = write_input(&sc, "in", &recs, &Container::FastaSingle, None, &mut rng);
        let max_us = *rng.pick(&[0u64, 20, 200]);
        sched_case(ctx, &mut st, &sc, &recs, &cfg, &inp, Mode::Perturbed { seed: rng.next_u64(), max_us }, vec![], "free", &mut orders);
    }
    st.set_extra("distinct_publication_orders", Json::u(orders.len()));
    st
}

/// deterministic lag for the mapped writer: the worker that takes one chosen record is held for 300 ms at the `took`
/// hook while the others write the thousands of remaining rows (row offsets, not arrival order, must place every row)
pub fn lag(ctx: &Ctx) -> Stats {
    let mut st = Stats::new();
    let n = ctx.n(4, 24);
    let mut orders = HashSet::new();
    for i in 0..n {
        if ctx.expired() {
            st.truncated = true;
            break;
        }
        let mut rng = Rng::keyed(ctx.seed, "c05.lag", i);
        let nrec = rng.usize(5000, 9000);
        let k = rng.usize(1, 3);
        let recs: Vec<Rec> = (0..nrec).map(|j| Rec { id: format!("g{}", j), desc: None, seq: gen_seq(&mut rng, SeqClass::Uniform, 5 + j % 37, true) }).collect();
        let cfg = OligoCfg { k, threads: [2usize, 3, 8, 4][((i / 2) % 4) as usize], memory: 4 << 30, header: i % 2 == 0, delim: " ".into(), norm: true, writer: Writer::Mmap };
        let sc = Scratch::new(ctx, "c05g");
        let inp = write_input(&sc, "in", &recs, &Container::FastaSingle, None, &mut rng);
        let victim = [0u64, rng.range(2, 200), 1, (nrec / 3) as u64][(i % 4) as usize];
        st.class(&format!("threads={} held record {}", cfg.threads, if victim < 2 { victim.to_string() } else { "later".into() }));
        sched_case(ctx, &mut st, &sc, &recs, &cfg, &inp, Mode::Straggle { record: victim, hold_ms: 300 }, vec![], "lag", &mut orders);
    }
    st
}

fn run_plain(sc: &Scratch, inp: &str, name: &str, cfg: &OligoCfg) -> Result<Vec<u8>, (String, String)> {
    let outp = sc.path(name);
    let run = run_oligo(inp, &outp, cfg, None);
    match run.result {
        Err(p) => Err((panic_sig(&p), format!("panicked: {}", p))),
        Ok(Err(e)) => Err(("oligo.error".into(), format!("returned Err({})", e))),
        Ok(Ok(())) => Ok(run.output.unwrap_or_default()),
    }
}

/// configuration matrix: threads x memory x writer x container x header, byte-compared with a baseline
pub fn configs(ctx: &Ctx) -> Stats {
    let n = ctx.n(120, 4000);
    par_cases(ctx, n, |idx, st| {
        let mut rng = Rng::keyed(ctx.seed, "c05.configs", idx);
        let k = rng.usize(1, 5);
        let nrec = rng.usize(1, 60);
        // FASTQ participates => records need at least one base; every other case also draws
        // base-less records (FASTA only) so that flushes of batches without bases are exercised
        let allow_empty = rng.chance(1, 2);
        let mut recs = gen_records(&mut rng, nrec, k, None, 150, if allow_empty { 0 } else { 1 });
        if allow_empty {
            // make some records base-less on purpose, including runs at the very end
            let tail = rng.usize(0, 3.min(recs.len()));
            let n = recs.len();
            for r in recs[n - tail..].iter_mut() {
                r.seq.clear();
            }
            if n > 2 && rng.chance(1, 2) {
                recs[n / 2].seq.clear();
            }
        }
        // a few records carry a header whose id is blank but which has a description ("> sample 7"):
        // unusual, accepted by the reader, and row order must not care
        if rng.chance(1, 3) {
            for j in 0..recs.len() {
                if rng.chance(1, 6) {
                    recs[j].id = String::new();
                    recs[j].desc = Some(format!("blank-id record {}", j));
                }
            }
            st.class("input-with-blank-id-headers");
        }
        let norm = rng.chance(2, 3);
        let delim = rng.pick(&[" ", ",", "\t"]).to_string();
        let sc = Scratch::new(ctx, "c05c");
        let base_in = write_input(&sc, "base", &recs, &Container::FastaSingle, None, &mut rng);
        let base_cfg = OligoCfg { k, threads: 1, memory: 4 << 30, header: false, delim: delim.clone(), norm, writer: Writer::Batch };
        let case = |cfg: &OligoCfg, what: &str| Json::obj().set("cfg", cfg.json()).set("variant", Json::s(what)).set("records", recs_json(&recs));
        st.case(recs.len() >= 2, mix(idx) ^ hash_bytes(&recs[0].seq));
        let base = match run_plain(&sc, &base_in, "base.out", &base_cfg) {
            Ok(b) => b,
            Err((sig, msg)) => {
                st.violate(&sig, format!("baseline run {}", msg), case(&base_cfg, "baseline"));
                return;
            }
        };
        if let Err((sig, msg)) = check_rows(&base, &recs, &base_cfg) {
            st.violate(&sig, format!("baseline (threads=1, batch, single-line FASTA): {}", msg), case(&base_cfg, "baseline"));
            return;
        }
        let header_line = {
            let mut h = cols(k).names.join(&delim).into_bytes();
            h.push(b'\n');
            h
        };
        let variants = ctx.pick(6, 10);
        for v in 0..variants {
            let cont = match rng.below(if allow_empty { 3 } else { 5 }) {
                0 => Container::FastaSingle,
                1 => Container::FastaWrapped(rng.usize(1, 90)),
                2 => Container::FastaCrlf,
                3 => Container::Fastq,
                _ => Container::FastqWrapped(rng.usize(1, 60)),
            };
            if allow_empty {
                st.class("input-with-base-less-records");
            }
            let gz = match rng.below(4) {
                0 => Some(GzLayout::Single(*rng.pick(&[0u32, 6]))),
                1 => Some(GzLayout::Multi(rng.usize(2, 5))),
                _ => None,
            };
            let writer = if norm { *rng.pick(&[Writer::Mmap, Writer::Batch, Writer::Public]) } else { *rng.pick(&[Writer::Batch, Writer::Public]) };
            let cfg = OligoCfg {
                k,
                threads: rng.usize(1, 16),
                memory: match rng.below(5) {
                    0 => 1,
                    1 => 2,
                    2 => *rng.pick(&[50usize, 100, 1000, 1_000_000]),
                    3 => 4 << 30,
                    _ => rng.log_range(1, 4 << 30) as usize,
                },
                header: rng.chance(1, 2),
                delim: delim.clone(),
                norm,
                writer,
            };
            let what = format!("{} {} writer={:?}", cont.name(), gz.as_ref().map_or("plain".to_string(), |g| g.describe()), writer);
            st.class(&cont.name().split('(').next().unwrap().to_string());
            st.class(&format!("writer={:?}", writer));
            if let Some(g) = &gz {
                st.class(&format!("gz:{}", g.describe().split('(').next().unwrap()));
            }
            let inp = write_input(&sc, &format!("v{}", v), &recs, &cont, gz.as_ref(), &mut rng);
            let got = match run_plain(&sc, &inp, &format!("v{}.out", v), &cfg) {
                Ok(b) => b,
                Err((sig, msg)) => {
                    st.violate(&sig, format!("variant [{}] {}", what, msg), case(&cfg, &what));
                    continue;
                }
            };
            let body: &[u8] = if cfg.header {
                if !got.starts_with(&header_line) {
                    st.violate("oligo.header", format!("variant [{}]: output does not start with the expected header line", what), case(&cfg, &what));
                    continue;
                }
                &got[header_line.len()..]
            } else {
                &got[..]
            };
            if body != &base[..] {
                let sig = if matches!(gz, Some(GzLayout::Multi(_))) && body.len() < base.len() && base.starts_with(body) {
                    "reader.gz.multimember"
                } else {
                    "oligo.config_dependence"
                };
                let bl = lines(&base).len();
                let gl = lines(body).len();
                st.violate(
                    sig,
                    format!("variant [{}] threads={} memory={} header={}: {} rows vs {} baseline rows; bytes differ from the baseline", what, cfg.threads, cfg.memory, cfg.header, gl, bl),
                    case(&cfg, &what),
                );
            }
        }
        if idx % 97 == 0 {
            st.sample(Json::obj().set("k", Json::u(k)).set("records", Json::u(recs.len())).set("norm", Json::Bool(norm)).set("variants", Json::u(variants)));
        }
    })
}

/// the real binary with -t and with stdin input ("-i -")
pub fn cli(ctx: &Ctx) -> Stats {
    let n = ctx.n(25, 600);
    par_cases(ctx, n, |idx, st| {
        let mut rng = Rng::keyed(ctx.seed, "c05.cli", idx);
        let k = rng.usize(3, 6);
        let nrec = rng.usize(2, 40);
        let recs = gen_records(&mut rng, nrec, k, None, 150, 1);
        let sc = Scratch::new(ctx, "c05cli");
        let inp = write_input(&sc, "in", &recs, &Container::FastaSingle, None, &mut rng);
        let raw = std::fs::read(&inp).unwrap();
        let counts = rng.chance(1, 2);
        let mut outs: Vec<(String, Vec<u8>)> = Vec::new();
        st.case(true, mix(idx) ^ hash_bytes(&raw));
        let variants: Vec<(String, Vec<String>, bool)> = vec![
            ("-t 1".into(), sv(&["-t", "1"]), false),
            (format!("-t {}", 2 + idx % 15), sv(&["-t", &(2 + idx % 15).to_string()]), false),
            ("-t 0 (auto)".into(), sv(&["-t", "0"]), false),
            ("stdin".into(), sv(&["-t", "3"]), true),
        ];
        for (name, extra, stdin) in variants {
            let outp = sc.path(&format!("o{}.kmers", outs.len()));
            let mut args = sv(&["comp", "oligo", "-o", &outp, "-k", &k.to_string()]);
            args.push("-i".into());
            args.push(if stdin { "-".into() } else { inp.clone() });
            if counts {
                args.push("-c".into());
            }
            args.extend(extra);
            let out = run_cli(ctx, &args, if stdin { Some(&raw) } else { None }, &CliLimits::default());
            let case = || Json::obj().set("argv", Json::s(args.join(" "))).set("records", recs_json(&recs));
            if out.timed_out && !out.cpu_exceeded && !out.stalled {
                st.inconclusive(format!("CLI watchdog: {}", out.describe()));
                return;
            }
            if !out.ok() {
                st.violate("cli.oligo.exit", format!("[{}] failed: {}", name, out.describe()), case());
                return;
            }
            outs.push((name, std::fs::read(&outp).unwrap_or_default()));
        }
        for (name, data) in &outs[1..] {
            if data != &outs[0].1 {
                st.violate(
                    "cli.oligo.config_dependence",
                    format!("output with [{}] differs from [{}] ({} vs {} bytes)", name, outs[0].0, data.len(), outs[0].1.len()),
                    Json::obj().set("k", Json::u(k)).set("counts", Json::Bool(counts)).set("records", recs_json(&recs)),
                );
                return;
            }
        }
        let cfg = OligoCfg { k, threads: 1, memory: 0, header: false, delim: " ".into(), norm: !counts, writer: Writer::Public };
        if let Err((sig, msg)) = check_rows(&outs[0].1, &recs, &cfg) {
            st.violate(&format!("cli.{}", sig), msg, Json::obj().set("k", Json::u(k)).set("records", recs_json(&recs)));
        }
        if idx % 11 == 0 {
            st.sample(Json::obj().set("k", Json::u(k)).set("records", Json::u(recs.len())).set("variants", Json::s("-t 1 | -t N | -t 0 | stdin")));
        }
    })
}

/// stress without any sink (no monitor-induced synchronisation): meant for the ThreadSanitizer
/// flavour, also valid natively.  Many mapped-writer runs with up to 16 workers; outputs judged.
pub fn stress(ctx: &Ctx) -> Stats {
    let mut st = Stats::new();
    let n = ctx.n(40, 150);
    for i in 0..n {
        if ctx.expired() {
            st.truncated = true;
            break;
        }
        let mut rng = Rng::keyed(ctx.seed, "c05.stress", i);
        let threads = rng.usize(2, 16);
        let nrec = rng.usize(threads, 200);
        let k = rng.usize(2, 4);
        let recs = distinct_records(&mut rng, nrec, k, true);
        let cfg = OligoCfg { k, threads, memory: 4 << 30, header: rng.chance(1, 2), delim: rng.pick(&[" ", "::", "\t"]).to_string(), norm: true, writer: if i % 3 == 0 { Writer::Batch } else { Writer::Mmap } };
        let sc = Scratch::new(ctx, "c05s");
        let inp = write_input(&sc, "in", &recs, &Container::FastaSingle, None, &mut rng);
        st.case(true, mix(i) ^ hash_bytes(&recs[0].seq));
        st.class(&format!("writer={:?}", cfg.writer));
        let case = || Json::obj().set("cfg", cfg.json()).set("records", recs_json(&recs));
        match run_plain(&sc, &inp, "out.kmers", &cfg) {
            Ok(d) => {
                if let Err((sig, msg)) = check_rows(&d, &recs, &cfg) {
                    st.violate(&sig, msg, case());
                }
            }
            Err((sig, msg)) => st.violate(&sig, msg, case()),
        }
        if i % 29 == 0 {
            st.sample(Json::obj().set("cfg", cfg.json()).set("records", Json::u(recs.len())));
        }
    }
    st
}

/// files with thousands of short records of uneven length (block-wise / chunked parallel writers would
/// reorder or drop rows only beyond some block size), both writers, threads 2..16
pub fn manyrecs(ctx: &Ctx) -> Stats {
    let n = ctx.n(6, 60);
    par_cases(ctx, n, |idx, st| {
        let mut rng = Rng::keyed(ctx.seed, "c05.manyrecs", idx);
        let k = rng.usize(1, 3);
        let nrec = rng.usize(1100, 7000);
        let mut recs = many_records(&mut rng, nrec);
        if idx % 3 == 1 {
            // one straggler: a record of 1.5-3 megabases among thousands of short ones (the worker that holds it falls
            // thousands of records behind the others)
            let at = [0usize, recs.len() / 2, 7][(idx / 3 % 3) as usize].min(recs.len());
            let len = rng.usize(1_500_000, 3_000_000);
            recs.insert(at, Rec { id: "straggler".into(), desc: None, seq: gen_seq(&mut rng, SeqClass::Uniform, len, true) });
            st.class("one multi-megabase record among thousands of short ones");
        }
        let norm = idx % 3 != 2;
        let cfg = OligoCfg {
            k,
            threads: rng.usize(2, 16),
            memory: *rng.pick(&[1usize, 1000, 100_000, 4 << 30]),
            header: rng.chance(1, 2),
            delim: " ".into(),
            norm,
            writer: if norm && idx % 2 == 0 { Writer::Mmap } else { Writer::Batch },
        };
        let sc = Scratch::new(ctx, "c05m");
        let inp = write_input(&sc, "in", &recs, &Container::FastaSingle, None, &mut rng);
        st.case(true, mix(idx) ^ hash_bytes(&recs[0].seq) ^ mix(nrec as u64));
        st.class(&format!("writer={:?}", cfg.writer));
        let case = || Json::obj().set("cfg", cfg.json()).set("n_records", Json::u(recs.len())).set("records", recs_json(&recs));
        match run_plain(&sc, &inp, "out.kmers", &cfg) {
            Ok(d) => {
                if let Err((sig, msg)) = check_rows(&d, &recs, &cfg) {
                    st.violate(&format!("{}:manyrecs", sig), msg, case());
                }
            }
            Err((sig, msg)) => st.violate(&sig, msg, case()),
        }
        if idx % 7 == 0 {
            st.sample(Json::obj().set("cfg", cfg.json()).set("n_records", Json::u(recs.len())));
        }
    })
}

/// batch hand-off stress for the batch writer: one record per batch (limit 1), thousands of batches per run
pub fn manybatches(ctx: &Ctx) -> Stats {
    let runs = ctx.n(150, 1500);
    let batches = std::sync::atomic::AtomicU64::new(0);
    let mut st = par_cases(ctx, runs, |idx, st| {
        let mut rng = Rng::keyed(ctx.seed, "c05.manybatches", idx);
        let nrec = rng.usize(3000, 5000);
        let k = rng.usize(1, 2);
        // pairwise distinguishable rows: record i has i % 11 + (0..3) bases
        let recs: Vec<Rec> = (0..nrec)
            .map(|i| {
                let len = (i % 11) + rng.usize(0, 3);
                Rec { id: format!("b{}", i), desc: None, seq: gen_seq(&mut rng, SeqClass::Uniform, len, true) }
            })
            .collect();
        let limit = [1usize, 12, 30, 60][((idx / 5) % 4) as usize];
        st.class(&format!("batch limit {} bases", limit));
        let cfg = OligoCfg { k, threads: [2usize, 3, 4, 8, 16][(idx % 5) as usize], memory: limit, header: idx % 4 == 0, delim: " ".into(), norm: idx % 2 == 0, writer: Writer::Batch };
        let sc = Scratch::new(ctx, "c05b");
        let inp = write_input(&sc, "in", &recs, &Container::FastaSingle, None, &mut rng);
        st.case(true, mix(idx) ^ mix(nrec as u64 + 29));
        batches.fetch_add((nrec * 6 / limit.max(6)) as u64, std::sync::atomic::Ordering::Relaxed);
        let case = || Json::obj().set("cfg", cfg.json()).set("n_records", Json::u(recs.len())).set("records", recs_json(&recs));
        match run_plain(&sc, &inp, "out.kmers", &cfg) {
            Ok(d) => {
                if let Err((sig, msg)) = check_rows(&d, &recs, &cfg) {
                    st.violate(&format!("{}:manybatches", sig), msg, case());
                }
            }
            Err((sig, msg)) => st.violate(&sig, msg, case()),
        }
    });
    st.set_extra("batch_boundaries_exercised", Json::Int(batches.load(std::sync::atomic::Ordering::Relaxed) as i128));
    st
}

/// thousands of short records with very uneven lengths and pairwise different content
pub fn many_records(rng: &mut Rng, n: usize) -> Vec<Rec> {
    // one case in three is also large in total bases (> 2^21) so that byte-budgeted work distribution is exercised
    let long = rng.chance(1, 3);
    let n = if long { n * 3 } else { n };
    (0..n)
        .map(|i| {
            let len = match rng.below(20) {
                0 => rng.usize(500, 3000),
                1 => 0,
                _ => {
                    if long {
                        rng.usize(60, 200)
                    } else {
                        rng.usize(1, 80)
                    }
                }
            };
            let class = *rng.pick(&[SeqClass::Uniform, SeqClass::MixedCaseU, SeqClass::IsolatedN, SeqClass::TwoLetter]);
            Rec { id: format!("m{}", i), desc: None, seq: gen_seq(rng, class, len, true) }
        })
        .collect()
}

/// thorough: tens of thousands of records so that one batch of the batch writer renders to > 64 MiB
/// (buffer-bypass style optimisations), with a header; first line, row count and every row are judged
pub fn hugebatch(ctx: &Ctx) -> Stats {
    let mut st = Stats::new();
    let mut rng = Rng::keyed(ctx.seed, "c05.hugebatch", 0);
    for (round, k) in [5usize, 4].iter().enumerate() {
        if ctx.expired() {
            st.truncated = true;
            break;
        }
        let cols_n = cols(*k).codes.len();
        // counts mode: ~2 bytes per field -> records needed for ~80 MiB
        let nrec = (80usize << 20) / (cols_n * 2 + 1) + rng.usize(0, 500);
        let recs: Vec<Rec> = (0..nrec)
            .map(|i| {
                let len = rng.usize(*k, *k + 30);
                Rec { id: format!("h{}", i), desc: None, seq: (0..len).map(|_| *rng.pick(b"ACGT")).collect() }
            })
            .collect();
        let sc = Scratch::new(ctx, "c05huge");
        let inp = write_input(&sc, "in", &recs, &Container::FastaSingle, None, &mut rng);
        let cfg = OligoCfg { k: *k, threads: 8, memory: 4 << 30, header: true, delim: if round == 0 { " ".into() } else { "\t".into() }, norm: false, writer: Writer::Batch };
        st.case(true, mix(round as u64) ^ mix(nrec as u64));
        let case = || Json::obj().set("cfg", cfg.json()).set("n_records", Json::u(nrec)).set("note", Json::s("records are random ACGT of length k..k+30; not stored"));
        note_current_case(ctx, &case());
        match run_plain(&sc, &inp, "out.kmers", &cfg) {
            Ok(d) => {
                st.set_extra("output_bytes_max", Json::Int(d.len() as i128));
                if let Err((sig, msg)) = check_rows(&d, &recs, &cfg) {
                    st.violate(&format!("{}:hugebatch", sig), msg, case());
                }
            }
            Err((sig, msg)) => st.violate(&sig, msg, case()),
        }
        st.sample(case());
    }
    st
}
