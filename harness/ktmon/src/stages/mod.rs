use crate::common::{Ctx, Stats};

pub mod c01;
pub mod c02;
pub mod c09;

type StageFn = fn(&Ctx) -> Stats;

const STAGES: &[(&str, StageFn)] = &[
    ("c01.exhaustive", c01::exhaustive),
    ("c01.random", c01::random),
    ("c01.bytes", c01::bytes),
    ("c02.codes", c02::codes),
    ("c02.sampled", c02::sampled),
    ("c02.streams", c02::streams),
    ("c09.exhaustive", c09::exhaustive),
    ("c09.random", c09::random),
    ("c18.exhaustive", c09::exhaustive18),
    ("c18.random", c09::random18),
];

pub fn names() -> Vec<&'static str> {
    STAGES.iter().map(|s| s.0).collect()
}

pub fn run(ctx: &Ctx) -> Option<Stats> {
    if ctx.stage == "replay" {
        return Some(replay(ctx));
    }
    STAGES.iter().find(|s| s.0 == ctx.stage).map(|s| (s.1)(ctx))
}

/// Re-run the concrete case stored in a replay file with the monitors of its stage.
fn replay(ctx: &Ctx) -> Stats {
    use refmodel::json::Json;
    let mut st = Stats::new();
    let path = ctx.replay.clone().expect("--replay FILE");
    let text = std::fs::read_to_string(&path).expect("read replay file");
    let j = Json::parse(&text).expect("parse replay file");
    let stage = j.get("stage").and_then(|s| s.as_str()).unwrap_or("").to_string();
    let case = j.get("case").cloned().unwrap_or(Json::Null);
    let fam = stage.split('.').next().unwrap_or("");
    match fam {
        "c01" => c01::replay(&case, &mut st),
        "c02" => c02::replay(&case, &mut st),
        "c09" => c09::replay(&case, &mut st, false),
        "c18" => c09::replay(&case, &mut st, true),
        _ => st.inconclusive(format!("no in-process replay for stage {}: re-run the stage with the same seed", stage)),
    }
    st
}
