use crate::common::{Ctx, Stats};

pub mod c01;
pub mod c02;
pub mod c03;
pub mod c04;
pub mod c05;
pub mod c06;
pub mod c07;
pub mod c08;
pub mod c09;
pub mod c10;
pub mod c14;
pub mod c15;
pub mod c16;
pub mod c17;
pub mod cgr;
pub mod coreeval;
pub mod fence;
pub mod oligo;
pub mod replayf;
pub mod selfcheck;

type StageFn = fn(&Ctx) -> Stats;

const STAGES: &[(&str, StageFn)] = &[
    ("c01.exhaustive", c01::exhaustive),
    ("c01.random", c01::random),
    ("c01.bytes", c01::bytes),
    ("c01.longruns", c01::longruns),
    ("c01.gaps", c01::gaps),
    ("c01.gigabases", c01::gigabases),
    ("fence.kmers", fence::kmers),
    ("fence.min", fence::min),
    ("fence.vectors", fence::vectors),
    ("c02.codes", c02::codes),
    ("c02.firstcall", c02::firstcall),
    ("c02.firstcall.child", c02::firstcall_child),
    ("c02.sampled", c02::sampled),
    ("c02.streams", c02::streams),
    ("c03.maps", c03::maps),
    ("c03.headers", c03::headers),
    ("c03.concurrent", c03::concurrent),
    ("c04.one", c04::one),
    ("c04.file", c04::file),
    ("c04.cli", c04::cli),
    ("c04.large", c04::large),
    ("c04.seams", c04::seams),
    ("c04.largefile", c04::largefile),
    ("c05.sched_exhaustive", c05::sched_exhaustive),
    ("c05.sched_random", c05::sched_random),
    ("c05.free", c05::free),
    ("c05.configs", c05::configs),
    ("c05.cli", c05::cli),
    ("c05.stress", c05::stress),
    ("c05.manyrecs", c05::manyrecs),
    ("c05.manybatches", c05::manybatches),
    ("c05.lag", c05::lag),
    ("cgr.manybatches", cgr::manybatches),
    ("c05.hugebatch", c05::hugebatch),
    ("c14.stress", c05::stress),
    ("c06.files", c06::files),
    ("c06.suffixes", c06::suffixes),
    ("c06.cli_rows", c06::cli_rows),
    ("c06.member_boundaries", c06::member_boundaries),
    ("c07.sched_exhaustive", c07::sched_exhaustive),
    ("c07.sched_random", c07::sched_random),
    ("c07.configs", c07::configs),
    ("c07.contention", c07::contention),
    ("c07.seams", c07::seams),
    ("c07.fdlimit", c07::fdlimit),
    ("c07.lag", c07::lag),
    ("c07.cli", c07::cli),
    ("c08.lib", c08::lib),
    ("c08.cli", c08::cli),
    ("c08.big", c08::big),
    ("c08.manyrecs", c08::manyrecs),
    ("c08.bigtable", c08::bigtable),
    ("c08.exact_multiples", c08::exact_multiples),
    ("c09.exhaustive", c09::exhaustive),
    ("c09.random", c09::random),
    ("c09.longruns", c09::longruns),
    ("c09.gaps", c09::gaps),
    ("c09.widewindow", c09::widewindow),
    ("c09.gigabases", c09::gigabases),
    ("c18.gigabases", c09::gigabases),
    ("c18.gaps", c09::gaps),
    ("c18.longruns", c09::longruns),
    ("c10.lib", c10::lib),
    ("c10.sched_exhaustive", c10::sched_exhaustive),
    ("c10.sched_random", c10::sched_random),
    ("c10.cli", c10::cli),
    ("c10.stress", c10::stress),
    ("c10.large", c10::large),
    ("c10.bulk", c10::bulk),
    ("c10.straggler", c10::straggler),
    ("c10.lag", c10::lag),
    ("c11.one", cgr::one),
    ("c11.reject", cgr::reject),
    ("c11.file", cgr::file),
    ("c11.cli", cgr::cli),
    ("c12.lib", cgr::kcgr_lib),
    ("c12.cli", cgr::kcgr_cli),
    ("c12.large", cgr::kcgr_large),
    ("c11.huge_output", cgr::huge_output),
    ("c12.huge_output", cgr::kcgr_huge_output),
    ("c11.manyrecs", cgr::manyrecs),
    ("c12.manyrecs", cgr::manyrecs),
    ("c14.mmap", c14::mmap),
    ("c14.unchecked", c14::unchecked),
    ("c15.relations", c15::relations),
    ("c15.refusals", c15::refusals),
    ("c15.env_paths", c15::env_paths),
    ("c15.threads_manyrecs", c15::threads_manyrecs),
    ("c16.cli", c16::cli),
    ("c16.lib", c16::lib),
    ("c17.lib", c17::lib),
    ("c17.cli", c17::cli),
    ("c17.killed", c17::killed),
    ("c17.sameinput", c17::sameinput),
    ("c17.nearby", c17::nearby),
    ("c17.pidreuse", c17::pidreuse),
    ("selfcheck", selfcheck::run),
    ("core-eval", coreeval::core_eval),
    ("ref-eval", coreeval::ref_eval),
    ("c18.exhaustive", c09::exhaustive18),
    ("c18.random", c09::random18),
];

pub fn names() -> Vec<&'static str> {
    STAGES.iter().map(|s| s.0).collect()
}

pub fn run(ctx: &Ctx) -> Option<Stats> {
    if ctx.stage == "replay" {
        return Some(replay(ctx));
    }
    STAGES.iter().find(|s| s.0 == ctx.stage).map(|s| (s.1)(ctx))
}

/// Re-run the concrete case stored in a replay file with the monitors of its stage.
fn replay(ctx: &Ctx) -> Stats {
    use refmodel::json::Json;
    let mut st = Stats::new();
    let path = ctx.replay.clone().expect("--replay FILE");
    let text = std::fs::read_to_string(&path).expect("read replay file");
    let j = Json::parse(&text).expect("parse replay file");
    let stage = j.get("stage").and_then(|s| s.as_str()).unwrap_or("").to_string();
    let case = j.get("case").cloned().unwrap_or(Json::Null);
    let fam = stage.split('.').next().unwrap_or("");
    match fam {
        "c01" => c01::replay(&case, &mut st),
        "c02" => c02::replay(&case, &mut st),
        "c09" => c09::replay(&case, &mut st, false),
        "c18" => c09::replay(&case, &mut st, true),
        "fence" => fence::replay(&case, &mut st, ctx),
        _ => {
            if !replayf::replay(ctx, &stage, &case, &mut st) {
                st.inconclusive(format!("no in-process replay for stage {}: re-run the stage with the same seed", stage));
            }
        }
    }
    st
}
