//! C11 — whole-sequence CGR follows the chaos-game midpoint rule inside the square.
//! C12 — k-mer CGR pairs each canonical k-mer's CGR position with its oligo frequency.
//! Oracle: exact dyadic arithmetic (refmodel::model::cgr_exact / cgr_subsquare).

use super::oligo::{cols, recs_json};
use crate::common::*;
use crate::util::*;
use composition::cgr::CgrComputer;
use composition::oligocgr::OligoCgrComputer;
use refmodel::gen::{gen_records, gen_seq, Rec, SeqClass};
use refmodel::json::Json;
use refmodel::model::{self, Dyadic};
use refmodel::rng::{hash_bytes, mix, Rng};
use refmodel::ser::{self, SerOpts};

const EXACT_POINTS: usize = 100;

fn nuc_seq(rng: &mut Rng, len: usize) -> Vec<u8> {
    let class = *rng.pick(&[SeqClass::Uniform, SeqClass::MixedCaseU, SeqClass::HomoPolymer, SeqClass::Period2, SeqClass::TwoLetter, SeqClass::Tandem, SeqClass::Palindrome]);
    gen_seq(rng, class, len, true)
}

fn pick_size(rng: &mut Rng) -> u64 {
    match rng.below(3) {
        0 => *rng.pick(&[1u64, 2, 3, 7, 16, 1000, 1 << 20]),
        1 => rng.range(1, 64),
        _ => rng.log_range(1, 1 << 20),
    }
}

fn coord_ok(got: f64, exact: Option<Dyadic>, s: u64, i: usize) -> bool {
    match exact {
        Some(d) => match d.exact_f64() {
            Some(e) => got == e,
            None => (got - d.approx_f64()).abs() <= s as f64 * (i as f64 + 1.0) * (0.5f64).powi(52),
        },
        None => true,
    }
}

/// The C11 monitor over a list of points for one sequence.
pub fn check_points(seq: &[u8], s: u64, pts: &[(f64, f64)]) -> Result<(), (String, String)> {
    if pts.len() != seq.len() {
        return Err(("cgr.point_count".into(), format!("{} points for {} bases", pts.len(), seq.len())));
    }
    let exact = model::cgr_exact(seq, s, EXACT_POINTS).expect("nucleotide sequence");
    for (i, &(x, y)) in pts.iter().enumerate() {
        if !x.is_finite() || !y.is_finite() {
            return Err(("cgr.not_finite".into(), format!("point {} = ({}, {})", i, x, y)));
        }
        if i < exact.len() {
            let (ex, ey) = exact[i];
            if !coord_ok(x, Some(ex), s, i) || !coord_ok(y, Some(ey), s, i) {
                return Err((
                    "cgr.midpoint".into(),
                    format!("point {} = ({}, {}) but the midpoint rule gives ({}, {}) (S={}, base {:?})", i, x, y, ex.approx_f64(), ey.approx_f64(), s, seq[i] as char),
                ));
            }
        }
        // containment in the sub-square fixed by the last j bases
        let j = (i + 1).min(30);
        let (lx, ly, jj) = model::cgr_subsquare(&seq[i + 1 - j..=i]).expect("nucleotide");
        let scale = (0.5f64).powi(jj as i32) * s as f64;
        let (x0, x1) = (lx as f64 * scale, (lx + 1) as f64 * scale);
        let (y0, y1) = (ly as f64 * scale, (ly + 1) as f64 * scale);
        if x < x0 || x > x1 || y < y0 || y > y1 {
            return Err((
                "cgr.containment".into(),
                format!("point {} = ({}, {}) outside the sub-square [{}, {}] x [{}, {}] fixed by its last {} bases (S={})", i, x, y, x0, x1, y0, y1, j, s),
            ));
        }
    }
    Ok(())
}

fn foreign_byte(rng: &mut Rng) -> u8 {
    loop {
        let b = match rng.below(3) {
            0 => *rng.pick(b"NnRYKMSWBDHVX-.*"),
            1 => rng.range(0x80, 0xff) as u8,
            _ => rng.range(4, 0x7f) as u8,
        };
        if model::base_digit(b).is_none() {
            return b;
        }
    }
}

/// per-sequence routine (hook wrapper): midpoint values, containment, prefix determinism
pub fn one(ctx: &Ctx) -> Stats {
    let n = ctx.n(20_000, 1_000_000);
    par_cases(ctx, n, |idx, st| {
        let mut rng = Rng::keyed(ctx.seed, "c11.one", idx);
        let s = pick_size(&mut rng);
        let len = match rng.below(10) {
            0 => rng.usize(0, 3),
            1 => rng.usize(200, 3000),
            _ => rng.usize(0, 140),
        };
        // one case in 150: a record long enough for any "parallelise long records" path (>= 8192 bases),
        // mostly low-complexity so that coordinates get close to the corners
        let len = if idx % 150 == 7 { rng.usize(8192, 70_000) } else { len };
        let seq = if len >= 8192 {
            st.class("record>=8192");
            let mut s = nuc_seq(&mut rng, len);
            // plant homopolymer / two-letter stretches at many places (including around typical block boundaries)
            let mut p = 0usize;
            while p + 64 < s.len() {
                let run = rng.usize(10, 60);
                let b = *rng.pick(b"ACTU");
                let b2 = *rng.pick(b"AC");
                for (j, x) in s[p..p + run].iter_mut().enumerate() {
                    *x = if j % 3 == 0 { b2 } else { b };
                }
                p += rng.usize(64, 700);
            }
            s
        } else {
            nuc_seq(&mut rng, len)
        };
        // one case in 150: more than a thousand bases drawn from two corners that share a coordinate (A/C: x = 0,
        // A/T/U: y = 0) with a power-of-two square: that coordinate is halved at every base, exactly, down through the
        // subnormal range to 2^-1074 and then to 0 — it must be S * 2^-(i+2) at base i, nothing else
        let (seq, s, shrinking) = if idx % 150 == 9 {
            let pair: &[u8] = if rng.chance(1, 2) { b"ACac" } else { b"ATUatu" };
            let l = rng.usize(1000, 1100);
            st.class("two-corner record > 1000 bases (subnormal coordinates)");
            ((0..l).map(|_| *rng.pick(pair)).collect::<Vec<u8>>(), *rng.pick(&[1u64, 2, 16, 1 << 20]), Some(pair[1] == b'C'))
        } else {
            (seq, s, None)
        };
        let len = seq.len();
        let case = || Json::obj().set("seq", Json::bytes(&seq)).set("S", Json::Int(s as i128));
        st.case(!seq.is_empty(), hash_bytes(&seq) ^ mix(s));
        st.class(if len > EXACT_POINTS { "longer-than-exact-range" } else { "exact-range" });
        let cut = rng.usize(0, len);
        let r = guarded(|| {
            let c = CgrComputer::new("unused".into(), "unused".into(), s as usize);
            (c.verif_vectorise_one(&seq), c.verif_vectorise_one(&seq[..cut]))
        });
        let (full, pre) = match r {
            Ok(v) => v,
            Err(p) => {
                st.violate(&panic_sig(&p), format!("per-sequence CGR panicked: {}", p), case());
                return;
            }
        };
        let (full, pre) = match (full, pre) {
            (Ok(a), Ok(b)) => (a, b),
            (a, b) => {
                st.violate("cgr.rejected_valid", format!("nucleotide sequence rejected: {:?} / {:?}", a.err(), b.err()), case());
                return;
            }
        };
        if let Err((sig, msg)) = check_points(&seq, s, &full) {
            st.violate(&sig, msg, case());
            return;
        }
        if full[..cut] != pre[..] {
            st.violate("cgr.prefix_determinism", format!("points of the {}-base prefix differ from the first {} points of the full sequence", cut, cut), case());
            return;
        }
        if let Some(x_shrinks) = shrinking {
            for (i, p) in full.iter().enumerate() {
                let got = if x_shrinks { p.0 } else { p.1 };
                // S * 2^-(i+2), computed by exact halving of an exact power of two
                let mut e = s as f64;
                for _ in 0..i + 2 {
                    e *= 0.5;
                }
                if got.to_bits() != e.to_bits() {
                    st.violate(
                        "cgr.midpoint.subnormal",
                        format!("base {}: the coordinate shared by both corners is {:e}, the midpoint rule gives exactly {:e} (S = {})", i, got, e, s),
                        case(),
                    );
                    return;
                }
            }
        }
        if idx % 5003 == 2 {
            st.sample(case().set("points", Json::u(full.len())).set("last_point", full.last().map_or(Json::Null, |p| Json::s(format!("({}, {})", p.0, p.1)))));
        }
    })
}

/// rejection clause: every position x a sample of foreign bytes
pub fn reject(ctx: &Ctx) -> Stats {
    let n = ctx.n(20_000, 500_000);
    par_cases(ctx, n, |idx, st| {
        let mut rng = Rng::keyed(ctx.seed, "c11.reject", idx);
        let s = pick_size(&mut rng);
        let len = rng.usize(1, 60);
        let mut seq = nuc_seq(&mut rng, len);
        let pos = (idx as usize) % len;
        let b = foreign_byte(&mut rng);
        seq[pos] = b;
        if rng.chance(1, 4) {
            let p2 = rng.usize(0, len - 1);
            seq[p2] = foreign_byte(&mut rng);
        }
        let case = || Json::obj().set("seq", Json::bytes(&seq)).set("S", Json::Int(s as i128));
        st.case(true, hash_bytes(&seq) ^ mix(s));
        st.class(match pos {
            0 => "foreign-first",
            p if p + 1 == len => "foreign-last",
            _ => "foreign-inside",
        });
        let r = guarded(|| CgrComputer::new("unused".into(), "unused".into(), s as usize).verif_vectorise_one(&seq));
        match r {
            Err(_) => {} // a panic is a refusal too
            Ok(Err(_)) => {}
            Ok(Ok(pts)) => {
                st.violate(
                    "cgr.accepted_foreign_byte",
                    format!("sequence with byte 0x{:02x} at {} yielded {} coordinates instead of being rejected", b, pos, pts.len()),
                    case(),
                );
            }
        }
        if idx % 5003 == 2 {
            st.sample(case());
        }
    })
}

pub fn parse_points(line: &[u8], arity: usize) -> Result<Vec<Vec<f64>>, String> {
    let s = std::str::from_utf8(line).map_err(|_| "non-UTF8".to_string())?;
    if s.is_empty() {
        return Ok(vec![]);
    }
    let mut out = Vec::new();
    for tok in s.split(' ') {
        let inner = tok.strip_prefix('(').and_then(|t| t.strip_suffix(')')).ok_or_else(|| format!("token {:?} not parenthesised", tok))?;
        let vals: Result<Vec<f64>, _> = inner.split(',').map(|v| v.parse::<f64>()).collect();
        let vals = vals.map_err(|_| format!("bad float in {:?}", tok))?;
        if vals.len() != arity {
            return Err(format!("token {:?} has {} components, expected {}", tok, vals.len(), arity));
        }
        out.push(vals);
    }
    Ok(out)
}

fn run_cgr_file(inp: &str, outp: &str, s: u64, threads: usize, memory: usize) -> Result<Result<(), String>, String> {
    super::oligo::prepare_output(outp);
    guarded(|| {
        let mut c = CgrComputer::new(inp.to_string(), outp.to_string(), s as usize);
        c.set_threads(threads);
        c.verif_set_max_memory(memory);
        c.vectorise()
    })
}

fn pick_memory(rng: &mut Rng) -> usize {
    match rng.below(4) {
        0 => 1,
        1 => rng.usize(2, 400),
        2 => 4 << 30,
        _ => rng.log_range(1, 4 << 30) as usize,
    }
}

/// file path: threads 1..16 x batch limits; rows in input order; a record with a foreign byte stops the run
pub fn file(ctx: &Ctx) -> Stats {
    let n = ctx.n(300, 10_000);
    par_cases(ctx, n, |idx, st| {
        let mut rng = Rng::keyed(ctx.seed, "c11.file", idx);
        let s = pick_size(&mut rng);
        let nrec = rng.usize(1, 30);
        let mut recs: Vec<Rec> = (0..nrec)
            .map(|i| Rec { id: format!("r{}", i), desc: None, seq: { let l = if rng.chance(1, 8) { 0 } else { rng.usize(1, 150) }; nuc_seq(&mut rng, l) } })
            .collect();
        let bad = if rng.chance(1, 4) {
            let i = rng.usize(0, nrec - 1);
            if recs[i].seq.is_empty() {
                recs[i].seq = b"ACGT".to_vec();
            }
            let p = rng.usize(0, recs[i].seq.len() - 1);
            recs[i].seq[p] = *rng.pick(b"NnRY-");
            Some(i)
        } else {
            None
        };
        let threads = rng.usize(1, 16);
        let memory = pick_memory(&mut rng);
        let sc = Scratch::new(ctx, "c11f");
        let fastq = bad.is_none() && recs.iter().all(|r| !r.seq.is_empty()) && rng.chance(1, 3);
        let inp = if fastq { sc.write("in.fq", &ser::to_fastq(&recs, &SerOpts::plain())) } else { sc.write("in.fa", &ser::to_fasta(&recs, &SerOpts::plain())) };
        let outp = sc.path("out.cgr");
        let case = || Json::obj().set("S", Json::Int(s as i128)).set("threads", Json::u(threads)).set("batch_limit", Json::Int(memory as i128)).set("records", recs_json(&recs));
        st.case(true, mix(idx) ^ hash_bytes(&recs[0].seq));
        st.class(if bad.is_some() { "with-foreign-byte-record" } else { "all-nucleotide" });
        let r = run_cgr_file(&inp, &outp, s, threads, memory);
        let data = std::fs::read(&outp).unwrap_or_default();
        let ls = lines(&data);
        match (bad, &r) {
            (Some(i), Ok(Ok(()))) => {
                // run "succeeded": then no row may exist for the bad record
                if ls.len() > i {
                    st.violate("cgr.file.accepted_foreign_byte", format!("record {} contains a non-nucleotide byte but the run succeeded with {} rows", i, ls.len()), case());
                }
                return;
            }
            (Some(i), _) => {
                if ls.len() > i {
                    st.violate("cgr.file.row_for_rejected_record", format!("run refused record {} but the output holds {} rows", i, ls.len()), case());
                }
                return;
            }
            (None, Err(p)) => {
                st.violate(&panic_sig(p), format!("CGR file run panicked: {}", p), case());
                return;
            }
            (None, Ok(Err(e))) => {
                st.violate("cgr.file.error", format!("CGR file run returned Err({})", e), case());
                return;
            }
            (None, Ok(Ok(()))) => {}
        }
        if ls.len() != recs.len() {
            st.violate("cgr.file.rowcount", format!("{} rows for {} records", ls.len(), recs.len()), case());
            return;
        }
        for (i, (l, rec)) in ls.iter().zip(recs.iter()).enumerate() {
            let pts = match parse_points(l, 2) {
                Ok(p) => p,
                Err(e) => {
                    st.violate("cgr.file.malformed", format!("row {}: {}", i, e), case());
                    return;
                }
            };
            let pts: Vec<(f64, f64)> = pts.iter().map(|v| (v[0], v[1])).collect();
            if let Err((sig, msg)) = check_points(&rec.seq, s, &pts) {
                st.violate(&format!("cgr.file.{}", sig.trim_start_matches("cgr.")), format!("row {}: {}", i, msg), case());
                return;
            }
        }
        if idx % 101 == 0 {
            st.sample(Json::obj().set("S", Json::Int(s as i128)).set("threads", Json::u(threads)).set("batch_limit", Json::Int(memory as i128)).set("records", Json::u(recs.len())));
        }
    })
}

/// CLI: `kmertools comp cgr -i F -o O [-v S] [-t N]`
pub fn cli(ctx: &Ctx) -> Stats {
    let n = ctx.n(30, 800);
    par_cases(ctx, n, |idx, st| {
        let mut rng = Rng::keyed(ctx.seed, "c11.cli", idx);
        let s = if rng.chance(1, 3) { None } else { Some(pick_size(&mut rng)) };
        let nrec = rng.usize(1, 20);
        let recs: Vec<Rec> = (0..nrec).map(|i| Rec { id: format!("r{}", i), desc: None, seq: { let l = rng.usize(1, 120); nuc_seq(&mut rng, l) } }).collect();
        let sc = Scratch::new(ctx, "c11c");
        let inp = sc.write("in.fa", &ser::to_fasta(&recs, &SerOpts::plain()));
        let outp = sc.path("out.cgr");
        let use_stdin = idx % 3 == 1;
        let raw = std::fs::read(&inp).unwrap_or_default();
        let mut args = sv(&["comp", "cgr", "-i", if use_stdin { "-" } else { &inp }, "-o", &outp, "-t", &rng.usize(0, 16).to_string()]);
        if let Some(s) = s {
            args.push("-v".into());
            args.push(s.to_string());
        }
        if use_stdin {
            st.class("stdin");
        }
        let case = || Json::obj().set("argv", Json::s(args.join(" "))).set("records", recs_json(&recs));
        st.case(true, mix(idx) ^ hash_bytes(args.join(" ").as_bytes()));
        let res = run_cli(ctx, &args, if use_stdin { Some(&raw) } else { None }, &CliLimits::default());
        if res.timed_out && !res.cpu_exceeded && !res.stalled {
            st.inconclusive(format!("CLI watchdog: {}", res.describe()));
            return;
        }
        if !res.ok() {
            st.violate("cli.cgr.exit", format!("comp cgr failed: {}", res.describe()), case());
            return;
        }
        let data = std::fs::read(&outp).unwrap_or_default();
        let ls = lines(&data);
        if ls.len() != recs.len() {
            st.violate("cli.cgr.rowcount", format!("{} rows for {} records", ls.len(), recs.len()), case());
            return;
        }
        for (i, (l, rec)) in ls.iter().zip(recs.iter()).enumerate() {
            match parse_points(l, 2) {
                Ok(p) => {
                    let pts: Vec<(f64, f64)> = p.iter().map(|v| (v[0], v[1])).collect();
                    // without -v only consistency with *some* square size is demanded (the default is not part
                    // of the property): infer S from the very first point
                    let s_eff = match s {
                        Some(v) => v,
                        None => {
                            let first = recs.iter().find(|r| !r.seq.is_empty());
                            let fp = ls.iter().zip(recs.iter()).find(|(_, r)| !r.seq.is_empty()).and_then(|(l, _)| parse_points(l, 2).ok()).and_then(|p| p.first().cloned());
                            match (first, fp) {
                                (Some(r), Some(p0)) => {
                                    let x_corner_zero = matches!(r.seq[0], b'A' | b'a' | b'C' | b'c');
                                    let sz = if x_corner_zero { p0[0] * 4.0 } else { p0[0] * 4.0 / 3.0 };
                                    if sz >= 1.0 && sz.fract() == 0.0 { sz as u64 } else { 1 }
                                }
                                _ => 1,
                            }
                        }
                    };
                    if let Err((sig, msg)) = check_points(&rec.seq, s_eff, &pts) {
                        st.violate(&format!("cli.{}", sig), format!("row {}: {}", i, msg), case());
                        return;
                    }
                }
                Err(e) => {
                    st.violate("cli.cgr.malformed", format!("row {}: {}", i, e), case());
                    return;
                }
            }
        }
        if idx % 13 == 0 {
            st.sample(Json::obj().set("argv", Json::s(args.join(" "))).set("records", Json::u(recs.len())));
        }
    })
}

// ------------------------------------------------------------------------------------------------
// C12

/// exact CGR end point of a k-mer text at square size S
fn kmer_endpoint(text: &str, s: u64) -> (f64, f64) {
    let e = model::cgr_exact(text.as_bytes(), s, 64).unwrap();
    let (x, y) = *e.last().unwrap();
    (x.exact_f64().expect("k <= 8 end points are representable"), y.exact_f64().expect("representable"))
}

pub fn check_oligocgr_rows(data: &[u8], recs: &[Rec], k: usize, s: u64, norm: bool) -> Result<(), (String, String)> {
    let c = cols(k);
    let ls = lines(data);
    if ls.len() != recs.len() {
        return Err(("kcgr.rowcount".into(), format!("{} rows for {} records", ls.len(), recs.len())));
    }
    let ends: Vec<(f64, f64)> = c.names.iter().map(|t| kmer_endpoint(t, s)).collect();
    for (i, (l, rec)) in ls.iter().zip(recs.iter()).enumerate() {
        let tr = parse_points(l, 3).map_err(|e| ("kcgr.malformed".to_string(), format!("row {}: {}", i, e)))?;
        if tr.len() != c.codes.len() {
            return Err(("kcgr.triple_count".into(), format!("row {} has {} triples, {} canonical {}-mers exist", i, tr.len(), c.codes.len(), k)));
        }
        let (counts, total) = model::oligo_counts(&rec.seq, k, &c.codes);
        // "f equals the value the oligonucleotide vector gives that column for the same record": the vector of the
        // real oligo routine, compared exactly wherever the row prints f with full precision
        let oligo_vec = guarded(|| {
            let mut oc = composition::oligo::OligoComputer::new("unused.fa".into(), "unused.out".into(), k);
            oc.set_norm(norm);
            oc.verif_vectorise_one(&rec.seq)
        })
        .ok();
        for (j, t) in tr.iter().enumerate() {
            if (t[0], t[1]) != ends[j] {
                return Err((
                    "kcgr.position".into(),
                    format!("row {} column {} ({}): position ({}, {}) but the chaos-game end point of {} at S={} is ({}, {})", i, j, c.names[j], t[0], t[1], c.names[j], s, ends[j].0, ends[j].1),
                ));
            }
            let ok = if norm {
                let e = if total == 0 { 0.0 } else { counts[j] as f64 / total as f64 };
                (t[2] - e).abs() <= 1e-12 * e.abs().max(1e-300)
            } else {
                t[2] == counts[j] as f64
            };
            if ok && norm {
                if let Some(ov) = oligo_vec.as_ref().and_then(|v| v.get(j)) {
                    if t[2].to_bits() != ov.to_bits() {
                        // a row that prints f with a fixed small number of decimals is compared at that precision
                        let repr = format!("{}", t[2]);
                        let decimals = repr.split('.').nth(1).map_or(0, |d| d.len());
                        let same_at_printed_precision = decimals <= 12 && (t[2] - ov).abs() <= 0.5000001 * 10f64.powi(-(decimals as i32));
                        if !same_at_printed_precision {
                            return Err((
                                "kcgr.freq.differs_from_oligo_vector".into(),
                                format!("row {} (record {}) column {} ({}): f = {:?} but the oligonucleotide vector of the same record gives {:?} ({}/{})", i, rec.id, j, c.names[j], t[2], ov, counts[j], total),
                            ));
                        }
                    }
                }
            }
            if !ok {
                return Err((
                    if norm { "kcgr.freq.norm" } else { "kcgr.freq.count" }.into(),
                    format!("row {} (record {}) column {} ({}): f = {} but count/total = {}/{}", i, rec.id, j, c.names[j], t[2], counts[j], total),
                ));
            }
        }
    }
    Ok(())
}

fn run_kcgr(inp: &str, outp: &str, k: usize, s: u64, norm: bool, threads: usize, memory: usize) -> Result<Vec<u8>, (String, String)> {
    super::oligo::prepare_output(outp);
    let r = guarded(|| {
        let mut c = OligoCgrComputer::new(inp.to_string(), outp.to_string(), k, s as usize);
        c.set_threads(threads);
        c.set_norm(norm);
        c.verif_set_max_memory(memory);
        c.vectorise()
    });
    match r {
        Err(p) => Err((panic_sig(&p), format!("k-mer CGR run panicked: {}", p))),
        Ok(Err(e)) => Err(("kcgr.error".into(), format!("returned Err({})", e))),
        Ok(Ok(())) => Ok(std::fs::read(outp).unwrap_or_default()),
    }
}

pub fn kcgr_lib(ctx: &Ctx) -> Stats {
    let n = ctx.n(300, 10_000);
    par_cases(ctx, n, |idx, st| {
        let mut rng = Rng::keyed(ctx.seed, "c12.lib", idx);
        let k = if rng.chance(1, 6) { 7 } else { rng.usize(1, 6) };
        let s = match rng.below(3) {
            0 => *rng.pick(&[1u64, 9, 16, 49, 1 << 20]),
            _ => pick_size(&mut rng),
        };
        let norm = rng.chance(1, 2);
        let nrec = rng.usize(1, if k >= 6 { 12 } else { 60 });
        let mut recs = gen_records(&mut rng, nrec, k, None, 150, 0);
        if idx % 25 == 3 {
            // column counts that are exactly a power of ten (and one less / one more): a homopolymer record of
            // 10^j + k - 1 (+-1) bases puts exactly that many windows into one column (number formatting widths)
            let j = rng.usize(1, 5);
            let c = 10usize.pow(j as u32) + [0usize, 0, 1][rng.below(3) as usize] - if rng.chance(1, 4) { 1 } else { 0 };
            let b = *rng.pick(b"ACGT");
            let at = rng.usize(0, recs.len() - 1);
            recs[at].seq = vec![b; c + k - 1];
            st.class("column count 10^j (+-1)");
        }
        let sc = Scratch::new(ctx, "c12");
        let inp = sc.write("in.fa", &ser::to_fasta(&recs, &SerOpts::plain()));
        let threads = rng.usize(1, 16);
        let memory = pick_memory(&mut rng);
        let case = |t: usize, m: usize| Json::obj().set("k", Json::u(k)).set("S", Json::Int(s as i128)).set("norm", Json::Bool(norm)).set("threads", Json::u(t)).set("batch_limit", Json::Int(m as i128)).set("records", recs_json(&recs));
        let windows: usize = recs.iter().map(|r| model::windows(&r.seq, k).len()).sum();
        st.case(windows > 0, mix(idx) ^ hash_bytes(&recs[0].seq));
        st.class(&format!("k={}", k));
        let base = match run_kcgr(&inp, &sc.path("o0"), k, s, norm, threads, memory) {
            Ok(d) => d,
            Err((sig, msg)) => {
                st.violate(&sig, msg, case(threads, memory));
                return;
            }
        };
        if let Err((sig, msg)) = check_oligocgr_rows(&base, &recs, k, s, norm) {
            st.violate(&sig, msg, case(threads, memory));
            return;
        }
        // f must agree with what the *actual* oligo output prints for the same record
        {
            use super::oligo::{run_oligo, OligoCfg, Writer};
            let ocfg = OligoCfg { k, threads: 1, memory: 4 << 30, header: false, delim: " ".into(), norm, writer: Writer::Batch };
            let run = run_oligo(&inp, &sc.path("oligo.out"), &ocfg, None);
            if let (Ok(Ok(())), Some(od)) = (&run.result, &run.output) {
                let ols = lines(od);
                let kls = lines(&base);
                for (i, (ol, kl)) in ols.iter().zip(kls.iter()).enumerate() {
                    let of: Vec<f64> = split_fields(ol, b" ").iter().filter_map(|f| parse_f64(f)).collect();
                    let kf: Vec<f64> = parse_points(kl, 3).map(|v| v.iter().map(|t| t[2]).collect()).unwrap_or_default();
                    if of.len() != kf.len() || of.iter().zip(kf.iter()).any(|(a, b)| (a - b).abs() > 0.5e-6 + 1e-9) {
                        st.violate("kcgr.vs_oligo", format!("row {}: frequencies disagree with the oligo output of the same record", i), case(threads, memory));
                        return;
                    }
                }
            }
        }
        let t2 = rng.usize(1, 16);
        let m2 = pick_memory(&mut rng);
        match run_kcgr(&inp, &sc.path("o1"), k, s, norm, t2, m2) {
            Ok(d) => {
                if d != base {
                    st.violate("kcgr.config_dependence", format!("bytes differ between (threads={}, limit={}) and (threads={}, limit={})", threads, memory, t2, m2), case(t2, m2));
                    return;
                }
            }
            Err((sig, msg)) => {
                st.violate(&sig, msg, case(t2, m2));
                return;
            }
        }
        if idx % 101 == 0 {
            st.sample(Json::obj().set("k", Json::u(k)).set("S", Json::Int(s as i128)).set("norm", Json::Bool(norm)).set("records", Json::u(recs.len())).set("first_record", Json::bytes(&recs[0].seq)));
        }
    })
}

pub fn kcgr_cli(ctx: &Ctx) -> Stats {
    let n = ctx.n(30, 800);
    par_cases(ctx, n, |idx, st| {
        let mut rng = Rng::keyed(ctx.seed, "c12.cli", idx);
        let kmax = if rng.chance(1, 5) { 7 } else { 5 };
        let k = rng.usize(3, kmax);
        let s = if rng.chance(1, 3) { None } else { Some(pick_size(&mut rng)) };
        let norm = rng.chance(1, 2);
        let nrec = rng.usize(1, if k >= 6 { 8 } else { 30 });
        let recs = gen_records(&mut rng, nrec, k, None, 150, 0);
        let sc = Scratch::new(ctx, "c12c");
        let inp = sc.write("in.fa", &ser::to_fasta(&recs, &SerOpts::plain()));
        let outp = sc.path("out.cgr");
        let use_stdin = idx % 3 == 1;
        let raw = std::fs::read(&inp).unwrap_or_default();
        let mut args = sv(&["comp", "cgr", "-i", if use_stdin { "-" } else { &inp }, "-o", &outp, "-k", &k.to_string(), "-t", &rng.usize(0, 16).to_string()]);
        if !norm {
            args.push("-c".into());
        }
        if let Some(s) = s {
            args.push("-v".into());
            args.push(s.to_string());
        }
        if use_stdin {
            st.class("stdin");
        }
        let case = || Json::obj().set("argv", Json::s(args.join(" "))).set("records", recs_json(&recs));
        let windows: usize = recs.iter().map(|r| model::windows(&r.seq, k).len()).sum();
        st.case(windows > 0, mix(idx) ^ hash_bytes(args.join(" ").as_bytes()));
        let res = run_cli(ctx, &args, if use_stdin { Some(&raw) } else { None }, &CliLimits::default());
        if res.timed_out && !res.cpu_exceeded && !res.stalled {
            st.inconclusive(format!("CLI watchdog: {}", res.describe()));
            return;
        }
        if !res.ok() {
            st.violate("cli.kcgr.exit", format!("comp cgr -k failed: {}", res.describe()), case());
            return;
        }
        let data = std::fs::read(&outp).unwrap_or_default();
        // without -v the square size is whatever the CLI defaults to (not part of the property): infer it from
        // the first triple (column 0 is the all-A k-mer whose end point is S / 2^(k+1))
        let s_eff = match s {
            Some(v) => v,
            None => lines(&data).first().and_then(|l| parse_points(l, 3).ok()).and_then(|t| t.first().cloned()).map(|t| (t[0] * (1u64 << (k + 1)) as f64).round() as u64).filter(|&v| v >= 1).unwrap_or((k * k) as u64),
        };
        if let Err((sig, msg)) = check_oligocgr_rows(&data, &recs, k, s_eff, norm) {
            st.violate(&format!("cli.{}", sig), msg, case());
        } else if idx % 13 == 0 {
            st.sample(Json::obj().set("argv", Json::s(args.join(" "))).set("records", Json::u(recs.len())));
        }
    })
}

/// thousands of short records: row order of both CGR writers under 2..16 threads and batch limits
pub fn manyrecs(ctx: &Ctx) -> Stats {
    let n = ctx.n(6, 50);
    par_cases(ctx, n, |idx, st| {
        let mut rng = Rng::keyed(ctx.seed, "cgr.manyrecs", idx);
        let nrec = rng.usize(1100, 6000);
        let s = pick_size(&mut rng);
        let threads = rng.usize(2, 16);
        let memory = *rng.pick(&[1usize, 2000, 200_000, 4 << 30]);
        let sc = Scratch::new(ctx, "cgrm");
        st.case(true, mix(idx) ^ mix(nrec as u64));
        if idx % 2 == 0 {
            // whole-sequence CGR: nucleotide records of uneven length
            let recs: Vec<Rec> = (0..nrec).map(|i| Rec { id: format!("m{}", i), desc: None, seq: { let l = if rng.chance(1, 25) { rng.usize(200, 900) } else { rng.usize(0, 40) }; nuc_seq(&mut rng, l) } }).collect();
            let inp = sc.write("in.fa", &ser::to_fasta(&recs, &SerOpts::plain()));
            let outp = sc.path("out.cgr");
            st.class("whole-sequence");
            let case = || Json::obj().set("S", Json::Int(s as i128)).set("threads", Json::u(threads)).set("batch_limit", Json::Int(memory as i128)).set("n_records", Json::u(recs.len())).set("records", recs_json(&recs));
            match run_cgr_file(&inp, &outp, s, threads, memory) {
                Ok(Ok(())) => {
                    let data = std::fs::read(&outp).unwrap_or_default();
                    let ls = lines(&data);
                    if ls.len() != recs.len() {
                        st.violate("cgr.file.rowcount:manyrecs", format!("{} rows for {} records", ls.len(), recs.len()), case());
                        return;
                    }
                    for (i, (l, rec)) in ls.iter().zip(recs.iter()).enumerate() {
                        let ok = match parse_points(l, 2) {
                            Ok(p) => check_points(&rec.seq, s, &p.iter().map(|v| (v[0], v[1])).collect::<Vec<_>>()).is_ok(),
                            Err(_) => false,
                        };
                        if !ok {
                            st.violate("cgr.file.row_order:manyrecs", format!("row {} is not the CGR of record {}", i, i), case());
                            return;
                        }
                    }
                }
                Ok(Err(e)) => st.violate("cgr.file.error", e, case()),
                Err(p) => st.violate(&panic_sig(&p), p, case()),
            }
        } else {
            let k = rng.usize(1, 3);
            let norm = rng.chance(1, 2);
            let recs = super::c05::many_records(&mut rng, nrec);
            let inp = sc.write("in.fa", &ser::to_fasta(&recs, &SerOpts::plain()));
            st.class("k-mer CGR");
            let case = || Json::obj().set("k", Json::u(k)).set("S", Json::Int(s as i128)).set("norm", Json::Bool(norm)).set("threads", Json::u(threads)).set("batch_limit", Json::Int(memory as i128)).set("n_records", Json::u(recs.len())).set("records", recs_json(&recs));
            match run_kcgr(&inp, &sc.path("out.kcgr"), k, s, norm, threads, memory) {
                Ok(d) => {
                    if let Err((sig, msg)) = check_oligocgr_rows(&d, &recs, k, s, norm) {
                        st.violate(&format!("{}:manyrecs", sig), msg, case());
                    }
                }
                Err((sig, msg)) => st.violate(&sig, msg, case()),
            }
        }
        if idx % 7 == 0 {
            st.sample(Json::obj().set("n_records", Json::u(nrec)).set("threads", Json::u(threads)).set("batch_limit", Json::Int(memory as i128)));
        }
    })
}

/// batch hand-off stress: every record is its own batch (limit 1), thousands of batches per run, several runs per
/// thread count — a row lost, duplicated or swapped at a batch boundary shows as a wrong row count or a row that is
/// not the CGR of its record.  Both CGR writers.
pub fn manybatches(ctx: &Ctx) -> Stats {
    let runs = ctx.n(200, 2000);
    let batches = std::sync::atomic::AtomicU64::new(0);
    let mut st = par_cases(ctx, runs, |idx, st| {
        let mut rng = Rng::keyed(ctx.seed, "cgr.manybatches", idx);
        let nrec = rng.usize(3000, 5000);
        let threads = [2usize, 3, 4, 8, 16][(idx % 5) as usize];
        let s = 16u64;
        // limit 1: one record per batch; 12 / 30 / 60 bases: two to a dozen records per batch, so that several workers
        // finish rows of the same batch at about the same time and the batch ends while hand-offs are in flight
        let limit = [1usize, 12, 30, 60][((idx / 5) % 4) as usize];
        let sc = Scratch::new(ctx, "cgrb");
        st.case(true, mix(idx) ^ mix(nrec as u64 + 17));
        batches.fetch_add((nrec * 5 / limit.max(5)) as u64, std::sync::atomic::Ordering::Relaxed);
        st.class(&format!("batch limit {} bases", limit));
        if idx % 2 == 0 {
            // distinct short nucleotide records: record i has a length and content derived from i
            let recs: Vec<Rec> = (0..nrec).map(|i| Rec { id: format!("b{}", i), desc: None, seq: { let l = 1 + (i % 7) + rng.usize(0, 3); nuc_seq(&mut rng, l) } }).collect();
            let inp = sc.write("in.fa", &ser::to_fasta(&recs, &SerOpts::plain()));
            let outp = sc.path("out.cgr");
            st.class("whole-sequence");
            let case = || Json::obj().set("S", Json::Int(s as i128)).set("threads", Json::u(threads)).set("batch_limit", Json::u(limit)).set("n_records", Json::u(recs.len())).set("records", recs_json(&recs));
            match run_cgr_file(&inp, &outp, s, threads, limit) {
                Ok(Ok(())) => {
                    let data = std::fs::read(&outp).unwrap_or_default();
                    let ls = lines(&data);
                    if ls.len() != recs.len() {
                        st.violate("cgr.file.rowcount:manybatches", format!("{} rows for {} records ({} threads, batch limit {} bases)", ls.len(), recs.len(), threads, limit), case());
                        return;
                    }
                    for (i, (l, rec)) in ls.iter().zip(recs.iter()).enumerate() {
                        let ok = match parse_points(l, 2) {
                            Ok(p) => check_points(&rec.seq, s, &p.iter().map(|v| (v[0], v[1])).collect::<Vec<_>>()).is_ok(),
                            Err(_) => false,
                        };
                        if !ok {
                            st.violate("cgr.file.row_order:manybatches", format!("row {} is not the CGR of record {} ({} threads, batch limit {} bases)", i, i, threads, limit), case());
                            return;
                        }
                    }
                }
                Ok(Err(e)) => st.violate("cgr.file.error", e, case()),
                Err(p) => st.violate(&panic_sig(&p), p, case()),
            }
        } else {
            let k = rng.usize(1, 2);
            let recs: Vec<Rec> = (0..nrec).map(|i| Rec { id: format!("b{}", i), desc: None, seq: { let l = (i % 9) + rng.usize(0, 4); nuc_seq(&mut rng, l) } }).collect();
            let inp = sc.write("in.fa", &ser::to_fasta(&recs, &SerOpts::plain()));
            st.class("k-mer CGR");
            let case = || Json::obj().set("k", Json::u(k)).set("S", Json::Int(s as i128)).set("threads", Json::u(threads)).set("batch_limit", Json::u(limit)).set("n_records", Json::u(recs.len())).set("records", recs_json(&recs));
            match run_kcgr(&inp, &sc.path("out.kcgr"), k, s, false, threads, limit) {
                Ok(d) => {
                    if let Err((sig, msg)) = check_oligocgr_rows(&d, &recs, k, s, false) {
                        st.violate(&format!("{}:manybatches", sig), msg, case());
                    }
                }
                Err((sig, msg)) => st.violate(&sig, msg, case()),
            }
        }
    });
    st.set_extra("batch_boundaries_exercised", Json::Int(batches.load(std::sync::atomic::Ordering::Relaxed) as i128));
    st
}

/// k-mer CGR on records with more than 2^24 windows of one canonical k-mer (accumulator width); analytic counts
pub fn kcgr_large(ctx: &Ctx) -> Stats {
    let mut st = Stats::new();
    let n = ctx.pick(2u64, 6u64);
    for i in 0..n {
        if ctx.expired() {
            st.truncated = true;
            break;
        }
        let mut rng = Rng::keyed(ctx.seed, "c12.large", i);
        let k = rng.usize(1, 3);
        let len = (1usize << 24) + rng.usize(1000, 400_000);
        let tail = rng.usize(1, 30_000);
        let mut seq = vec![b'A'; len];
        seq.extend(std::iter::repeat(b'C').take(tail));
        let c = cols(k);
        let idx: std::collections::HashMap<u64, usize> = c.codes.iter().enumerate().map(|(a, b)| (*b, a)).collect();
        let mut exp = vec![0u64; c.codes.len()];
        exp[idx[&0]] += (len - k + 1) as u64; // all-A windows
        for s0 in (len - k + 1)..=(seq.len() - k) {
            let code = model::canonical(model::encode(&seq[s0..s0 + k]).unwrap() as u64, k);
            exp[idx[&code]] += 1;
        }
        let total: u64 = exp.iter().sum();
        st.case(true, mix(i) ^ mix(len as u64));
        let case = || Json::obj().set("layout", Json::s(format!("A*{} + C*{}", len, tail))).set("k", Json::u(k)).set("total_windows", Json::Int(total as i128));
        for norm in [false, true] {
            let r = guarded(|| {
                let mut o = OligoCgrComputer::new("u.fa".into(), "u.out".into(), k, 16);
                o.set_norm(norm);
                o.verif_vectorise_one(&seq)
            });
            match r {
                Err(p) => st.violate(&panic_sig(&p), p, case()),
                Ok(Err(e)) => st.violate("kcgr.error", e, case()),
                Ok(Ok(v)) => {
                    for j in 0..c.codes.len() {
                        let f = v[j].1;
                        let ok = if norm { (f - exp[j] as f64 / total as f64).abs() <= 1e-12 } else { f == exp[j] as f64 };
                        if !ok {
                            st.violate(if norm { "kcgr.freq.norm:large" } else { "kcgr.freq.count:large" }, format!("column {} ({}): f = {} but count/total = {}/{}", j, c.names[j], f, exp[j], total), case());
                            break;
                        }
                    }
                }
            }
        }
        st.sample(case());
    }
    st
}

/// thorough, best effort: a single batch whose rendered text exceeds 2 GiB (one write(2) transfers at most
/// 0x7ffff000 bytes): whole-sequence CGR of 12 000 records x 5 000 bases, judged on size, line count and a
/// sample of rows.  Needs ~6 GB RAM and ~2.5 GB in the scratch directory.
pub fn huge_output(ctx: &Ctx) -> Stats {
    let mut st = Stats::new();
    let mut rng = Rng::keyed(ctx.seed, "c11.huge_output", 0);
    let nrec = 12_000usize;
    let len = 5_000usize;
    let recs: Vec<Rec> = (0..nrec).map(|i| Rec { id: format!("g{}", i), desc: None, seq: (0..len + (i % 7)).map(|_| *rng.pick(b"ACGT")).collect() }).collect();
    let sc = Scratch::new(ctx, "c11huge");
    let inp = sc.write("in.fa", &ser::to_fasta(&recs, &SerOpts::plain()));
    let outp = sc.path("out.cgr");
    let case = Json::obj().set("layout", Json::s("12000 random ACGT records of ~5000 bases, one batch, S=1, threads=8; records not stored"));
    note_current_case(ctx, &case);
    st.case(true, 1);
    st.sample(case.clone());
    match run_cgr_file(&inp, &outp, 1, 8, 4 << 30) {
        Err(p) => st.violate(&panic_sig(&p), p, case),
        Ok(Err(e)) => st.violate("cgr.file.error", e, case),
        Ok(Ok(())) => {
            let size = std::fs::metadata(&outp).map(|m| m.len()).unwrap_or(0);
            st.set_extra("output_bytes", Json::Int(size as i128));
            // stream the file: count lines, check point counts for all rows and values for a sample
            use std::io::{BufRead, BufReader};
            let f = std::fs::File::open(&outp).unwrap();
            let mut n = 0usize;
            let mut bad: Option<String> = None;
            for (i, line) in BufReader::with_capacity(1 << 22, f).split(b'\n').enumerate() {
                let line = match line {
                    Ok(l) => l,
                    Err(_) => break,
                };
                n += 1;
                if i >= recs.len() {
                    continue;
                }
                if i % 997 == 0 || i + 3 >= recs.len() {
                    match parse_points(&line, 2) {
                        Ok(p) => {
                            let pts: Vec<(f64, f64)> = p.iter().map(|v| (v[0], v[1])).collect();
                            if let Err((_, msg)) = check_points(&recs[i].seq, 1, &pts) {
                                bad.get_or_insert(format!("row {}: {}", i, msg));
                            }
                        }
                        Err(e) => {
                            bad.get_or_insert(format!("row {}: {}", i, e));
                        }
                    }
                } else {
                    let pts = line.iter().filter(|&&b| b == b'(').count();
                    if pts != recs[i].seq.len() {
                        bad.get_or_insert(format!("row {} has {} points for {} bases", i, pts, recs[i].seq.len()));
                    }
                }
            }
            if n != recs.len() {
                st.violate("cgr.file.rowcount:huge", format!("{} lines ({} bytes) for {} records", n, size, recs.len()), case);
            } else if let Some(b) = bad {
                st.violate("cgr.file.row:huge", b, case);
            }
        }
    }
    st
}

/// thorough, best effort: k-mer CGR at k = 7 on ~5000 records: one batch renders to > 2 GiB
pub fn kcgr_huge_output(ctx: &Ctx) -> Stats {
    let mut st = Stats::new();
    let mut rng = Rng::keyed(ctx.seed, "c12.huge_output", 0);
    let k = 7usize;
    let sc = Scratch::new(ctx, "c12huge");
    // measure the size of a row on 40 records first, then take as many records as give ~2.4 GiB in one batch
    let probe: Vec<Rec> = (0..40).map(|i| Rec { id: format!("p{}", i), desc: None, seq: (0..60 + (i % 11)).map(|_| *rng.pick(b"ACGT")).collect() }).collect();
    let pin = sc.write("probe.fa", &ser::to_fasta(&probe, &SerOpts::plain()));
    let row_bytes = match run_kcgr(&pin, &sc.path("probe.out"), k, 16, true, 4, 4 << 30) {
        Ok(d) => (d.len() / probe.len()).max(1),
        Err(_) => 230_000,
    };
    let nrec = ((2_400usize << 20) / row_bytes + 50).min(40_000);
    st.set_extra("row_bytes", Json::u(row_bytes));
    let recs: Vec<Rec> = (0..nrec).map(|i| Rec { id: format!("g{}", i), desc: None, seq: (0..60 + (i % 11)).map(|_| *rng.pick(b"ACGT")).collect() }).collect();
    let inp = sc.write("in.fa", &ser::to_fasta(&recs, &SerOpts::plain()));
    let outp = sc.path("out.kcgr");
    let case = Json::obj().set("layout", Json::s(format!("{} random ACGT records of 60..70 bases, k=7, S=16, normalised, one batch (~{} bytes per row); records not stored", nrec, row_bytes)));
    note_current_case(ctx, &case);
    st.case(true, 1);
    st.sample(case.clone());
    prepare_output_none(&outp);
    let r = guarded(|| {
        let mut c = OligoCgrComputer::new(inp.clone(), outp.clone(), k, 16);
        c.set_threads(8);
        c.set_norm(true);
        c.vectorise()
    });
    match r {
        Err(p) => st.violate(&panic_sig(&p), p, case),
        Ok(Err(e)) => st.violate("kcgr.error", e, case),
        Ok(Ok(())) => {
            use std::io::{BufRead, BufReader};
            let size = std::fs::metadata(&outp).map(|m| m.len()).unwrap_or(0);
            st.set_extra("output_bytes", Json::Int(size as i128));
            let f = std::fs::File::open(&outp).unwrap();
            let ncols = cols(k).codes.len();
            let mut n = 0usize;
            let mut bad: Option<String> = None;
            for (i, line) in BufReader::with_capacity(1 << 22, f).split(b'\n').enumerate() {
                let line = match line {
                    Ok(l) => l,
                    Err(_) => break,
                };
                n += 1;
                if i >= recs.len() {
                    continue;
                }
                if i % 509 == 0 || i + 2 >= recs.len() {
                    if let Err((_, msg)) = check_oligocgr_rows(&line, &recs[i..i + 1], k, 16, true) {
                        bad.get_or_insert(format!("row {}: {}", i, msg));
                    }
                } else if line.iter().filter(|&&b| b == b'(').count() != ncols {
                    bad.get_or_insert(format!("row {} has {} triples, expected {}", i, line.iter().filter(|&&b| b == b'(').count(), ncols));
                }
            }
            if n != recs.len() {
                st.violate("kcgr.rowcount:huge", format!("{} lines ({} bytes) for {} records", n, size, recs.len()), case);
            } else if let Some(b) = bad {
                st.violate("kcgr.row:huge", b, case);
            }
        }
    }
    st
}

fn prepare_output_none(p: &str) {
    let _ = std::fs::remove_file(p);
}
