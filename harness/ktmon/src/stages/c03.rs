//! C03 — canonical k-mer column index is a dense ordered bijection matching the header.

use super::oligo::*;
use crate::common::*;
use crate::util::*;
use composition::oligo::OligoComputer;
use kmer::kmer::KmerGenerator;
use refmodel::gen::Rec;
use refmodel::json::Json;
use refmodel::model;
use refmodel::rng::{mix, Rng};

/// kmer_pos_maps(k) against the enumerated reference, k = 1..=8 (quick) / 1..=10 (thorough)
pub fn maps(ctx: &Ctx) -> Stats {
    let kmax = ctx.pick(10usize, 10usize);
    let mut st = Stats::new();
    let mut per_k = Json::arr();
    for k in 1..=kmax {
        if ctx.expired() {
            st.truncated = true;
            break;
        }
        let reference = model::canonical_list(k);
        let closed = model::canonical_count_closed_form(k);
        let case = |extra: Json| Json::obj().set("k", Json::u(k)).set("detail", extra);
        let r = guarded(|| KmerGenerator::kmer_pos_maps(k));
        let (pos_map, pos_kmer, count) = match r {
            Ok(v) => v,
            Err(p) => {
                st.case(true, mix(k as u64));
                st.violate(&panic_sig(&p), format!("kmer_pos_maps({}) panicked: {}", k, p), case(Json::Null));
                continue;
            }
        };
        let mut bad = false;
        if reference.len() as u64 != closed {
            st.violate("HARNESS.closed_form", format!("reference list has {} entries, closed form {}", reference.len(), closed), case(Json::Null));
        }
        if count as u64 != closed {
            st.violate("posmap.count", format!("k={}: column count {} but closed form gives {}", k, count, closed), case(Json::Null));
            bad = true;
        }
        if pos_kmer.len() as u64 != closed {
            st.violate("posmap.inverse_size", format!("k={}: index-to-k-mer map has {} entries, expected {}", k, pos_kmer.len(), closed), case(Json::Null));
            bad = true;
        }
        // (the size of the k-mer-to-index table and its entries at non-canonical codes are unspecified)
        let header = guarded(|| OligoComputer::new("unused.fa".into(), "unused.out".into(), k).verif_get_header());
        for (rank, &code) in reference.iter().enumerate() {
            st.case(true, mix(code) ^ mix(1000 + k as u64));
            if bad {
                continue;
            }
            // entries at non-canonical codes are unspecified and never judged
            if pos_map.get(code as usize) != Some(&rank) {
                st.violate("posmap.rank", format!("k={}: canonical k-mer {} ({}) maps to column {:?}, its rank is {}", k, code, model::decode(code, k), pos_map.get(code as usize), rank), case(Json::Int(code as i128)));
                bad = true;
                continue;
            }
            if pos_kmer.get(&rank) != Some(&code) {
                st.violate("posmap.inverse", format!("k={}: column {} maps back to {:?}, expected {}", k, rank, pos_kmer.get(&rank), code), case(Json::Int(code as i128)));
                bad = true;
                continue;
            }
            match &header {
                Ok(h) => {
                    if h.get(rank).map(|s| s.as_str()) != Some(model::decode(code, k).as_str()) {
                        st.violate("oligo.header", format!("k={}: header column {} is {:?}, expected {}", k, rank, h.get(rank), model::decode(code, k)), case(Json::Int(code as i128)));
                        bad = true;
                    }
                }
                Err(p) => {
                    st.violate(&panic_sig(p), format!("get_header panicked: {}", p), case(Json::Null));
                    bad = true;
                }
            }
        }
        if let Ok(h) = &header {
            if h.len() != reference.len() && !bad {
                st.violate("oligo.header", format!("k={}: header has {} names, expected {}", k, h.len(), reference.len()), case(Json::Null));
            }
        }
        per_k.push(Json::obj().set("k", Json::u(k)).set("codes_enumerated", Json::Int(1i128 << (2 * k))).set("canonical", Json::u(reference.len())));
        if k == 3 {
            st.sample(Json::obj().set("k", Json::u(3)).set("first_columns", Json::Arr(reference.iter().take(6).map(|&c| Json::s(model::decode(c, 3))).collect())).set("count", Json::u(reference.len())));
        }
    }
    // the same thread asks again, in a different order (repeats of one k, descending k, a small k after a large one):
    // every answer must be what the first pass gave — nothing may be carried over from an earlier call
    let order: Vec<usize> = [kmax, kmax, kmax - 1, kmax, 9.min(kmax), 9.min(kmax), 3, 8.min(kmax), 2, kmax, 1, 5, 5].into_iter().collect();
    for (i, &k) in order.iter().enumerate() {
        if ctx.expired() {
            st.truncated = true;
            break;
        }
        let reference = model::canonical_list(k);
        st.case(true, mix(k as u64) ^ mix(7000 + i as u64));
        st.class("repeated / reordered request");
        let case = Json::obj().set("k", Json::u(k)).set("request_order_so_far", Json::Arr(order[..=i].iter().map(|&x| Json::u(x)).collect()));
        match guarded(|| KmerGenerator::kmer_pos_maps(k)) {
            Err(p) => st.violate(&panic_sig(&p), format!("kmer_pos_maps({}) panicked on a repeated request: {}", k, p), case),
            Ok((pos_map, pos_kmer, count)) => {
                if count != reference.len() || pos_kmer.len() != reference.len() {
                    st.violate("posmap.repeat.count", format!("k={} asked again: column count {} / inverse size {}, expected {}", k, count, pos_kmer.len(), reference.len()), case);
                } else if reference.iter().enumerate().any(|(rank, &code)| pos_map.get(code as usize) != Some(&rank) || pos_kmer.get(&rank) != Some(&code)) {
                    st.violate("posmap.repeat.rank", format!("k={} asked again: a canonical k-mer does not map to its rank (or back)", k), case);
                }
            }
        }
    }
    st.set_extra("exhaustive", Json::Bool(!st.truncated));
    st.set_extra("per_k", per_k);
    st.set_extra("rayon_num_threads_env", Json::s(std::env::var("RAYON_NUM_THREADS").unwrap_or_else(|_| "unset".into())));
    st
}

/// the same maps requested concurrently for different k from many threads (computers for several k coexist in one
/// process: Python objects, library users): every answer must still be the table of the k that was asked for
pub fn concurrent(ctx: &Ctx) -> Stats {
    let rounds = ctx.n(300, 5000);
    let threads = 16usize;
    let st = std::sync::Mutex::new(Stats::new());
    std::thread::scope(|sc| {
        for t in 0..threads {
            let st = &st;
            sc.spawn(move || {
                let mut local = Stats::new();
                let mut rng = Rng::keyed(ctx.seed, "c03.concurrent", t as u64);
                for i in 0..rounds {
                    if ctx.expired() {
                        local.truncated = true;
                        break;
                    }
                    // neighbouring threads ask for different k at the same time; small k dominate so that calls are short and overlap often
                    let k = if i % 7 == 0 { rng.usize(5, 8) } else { 1 + ((t as u64 + i) % 5) as usize };
                    let c = cols(k);
                    local.case(true, mix(k as u64) ^ mix(t as u64 * 1_000_003 + i));
                    local.class(&format!("k={}", k));
                    let case = Json::obj().set("k", Json::u(k)).set("thread", Json::u(t)).set("round", Json::Int(i as i128)).set("concurrent_threads", Json::u(threads));
                    match guarded(|| (KmerGenerator::kmer_pos_maps(k), OligoComputer::new("unused.fa".into(), "unused.out".into(), k).verif_get_header())) {
                        Err(p) => local.violate(&panic_sig(&p), format!("kmer_pos_maps({}) panicked under concurrent use: {}", k, p), case),
                        Ok(((pos_map, pos_kmer, count), header)) => {
                            if count != c.codes.len() || pos_kmer.len() != c.codes.len() {
                                local.violate("posmap.concurrent.count", format!("k={}: column count {} / inverse size {} under concurrent use, expected {}", k, count, pos_kmer.len(), c.codes.len()), case);
                            } else if c.codes.iter().enumerate().any(|(rank, &code)| pos_map.get(code as usize) != Some(&rank) || pos_kmer.get(&rank) != Some(&code)) {
                                local.violate("posmap.concurrent.rank", format!("k={}: a canonical k-mer does not map to its rank (or back) under concurrent use", k), case);
                            } else if header.iter().map(|s| s.as_str()).ne(c.names.iter().map(|s| s.as_str())) {
                                local.violate("oligo.header.concurrent", format!("k={}: header differs from the canonical k-mers in column order under concurrent use", k), case);
                            }
                        }
                    }
                }
                st.lock().unwrap().merge(local);
            });
        }
    });
    let mut st = st.into_inner().unwrap();
    st.set_extra("threads", Json::u(threads));
    st
}

/// header line through both writers (library) and through the CLI for every preset
pub fn headers(ctx: &Ctx) -> Stats {
    let mut st = Stats::new();
    let mut rng = Rng::keyed(ctx.seed, "c03.headers", 0);
    let recs = vec![Rec { id: "a".into(), desc: None, seq: b"ACGTTGCAAGGCTTAACGN".to_vec() }, Rec { id: "b".into(), desc: None, seq: b"GGGGCCCCATAT".to_vec() }];
    let sc = Scratch::new(ctx, "c03h");
    let inp = write_input(&sc, "in", &recs, &Container::FastaSingle, None, &mut rng);
    for k in 1..=ctx.pick(7usize, 8usize) {
        for writer in [Writer::Mmap, Writer::Batch] {
            for delim in [" ", ",", "\t"] {
                let cfg = OligoCfg { k, threads: 2, memory: 4 << 30, header: true, delim: delim.into(), norm: true, writer };
                st.case(true, mix(k as u64 * 100 + delim.as_bytes()[0] as u64) ^ mix(writer as u64 + 5));
                let run = run_oligo(&inp, &sc.path("o.kmers"), &cfg, None);
                let case = || Json::obj().set("cfg", cfg.json());
                match run.result {
                    Ok(Ok(())) => {
                        if let Err((sig, msg)) = check_rows(&run.output.unwrap_or_default(), &recs, &cfg) {
                            st.violate(&sig, msg, case());
                        }
                    }
                    Ok(Err(e)) => st.violate("oligo.error", e, case()),
                    Err(p) => st.violate(&panic_sig(&p), p, case()),
                }
            }
        }
    }
    // header on an input with zero records: the output is exactly the header line (both writers, library and CLI)
    {
        let empty: Vec<Rec> = vec![];
        let einp = write_input(&sc, "empty", &empty, &Container::FastaSingle, None, &mut rng);
        for k in [1usize, 3, 5] {
            for writer in [Writer::Mmap, Writer::Batch] {
                let cfg = OligoCfg { k, threads: 2, memory: 4 << 30, header: true, delim: ",".into(), norm: true, writer };
                st.case(true, mix(7000 + k as u64) ^ mix(writer as u64 + 5));
                let run = run_oligo(&einp, &sc.path("oe.kmers"), &cfg, None);
                let case = || Json::obj().set("cfg", cfg.json()).set("input", Json::s("zero records"));
                match run.result {
                    Ok(Ok(())) => {
                        if let Err((sig, msg)) = check_rows(&run.output.unwrap_or_default(), &empty, &cfg) {
                            st.violate(&format!("{}:empty_input", sig), msg, case());
                        }
                    }
                    Ok(Err(e)) => st.violate("oligo.error", e, case()),
                    Err(p) => st.violate(&panic_sig(&p), p, case()),
                }
            }
        }
        if ctx.cli.is_some() {
            for (k, preset, delim, counts) in [(3usize, "csv", ",", false), (5, "tsv", "\t", false), (4, "spc", " ", true)] {
                let outp = sc.path("cli-empty.kmers");
                let _ = std::fs::remove_file(&outp);
                let mut args = sv(&["comp", "oligo", "-i", &einp, "-o", &outp, "-k", &k.to_string(), "-H", "-p", preset]);
                if counts {
                    args.push("-c".into());
                }
                st.case(true, mix(7100 + k as u64));
                let res = run_cli(ctx, &args, None, &CliLimits::default());
                let cfg = OligoCfg { k, threads: 1, memory: 0, header: true, delim: delim.into(), norm: !counts, writer: Writer::Public };
                if res.ok() {
                    if let Err((sig, msg)) = check_rows(&std::fs::read(&outp).unwrap_or_default(), &empty, &cfg) {
                        st.violate(&format!("cli.{}:empty_input", sig), msg, Json::obj().set("argv", Json::s(args.join(" "))));
                    }
                } else if !(res.timed_out && !res.cpu_exceeded && !res.stalled) {
                    st.violate("cli.oligo.exit:empty_input", res.describe(), Json::obj().set("argv", Json::s(args.join(" "))));
                }
            }
        }
    }
    if ctx.cli.is_some() {
        for k in 3..=7usize {
            for (preset, delim) in [("spc", " "), ("csv", ","), ("tsv", "\t")] {
                for counts in [false, true] {
                    let outp = sc.path("cli.kmers");
                    let _ = std::fs::remove_file(&outp);
                    let mut args = sv(&["comp", "oligo", "-i", &inp, "-o", &outp, "-k", &k.to_string(), "-H", "-p", preset]);
                    if counts {
                        args.push("-c".into());
                    }
                    st.case(true, mix(k as u64 * 7 + counts as u64) ^ mix(delim.as_bytes()[0] as u64 + 99));
                    let res = run_cli(ctx, &args, None, &CliLimits::default());
                    let case = || Json::obj().set("argv", Json::s(args.join(" ")));
                    if res.timed_out && !res.cpu_exceeded && !res.stalled {
                        st.inconclusive(format!("CLI watchdog: {}", res.describe()));
                        continue;
                    }
                    if !res.ok() {
                        st.violate("cli.oligo.exit", res.describe(), case());
                        continue;
                    }
                    let cfg = OligoCfg { k, threads: 1, memory: 0, header: true, delim: delim.into(), norm: !counts, writer: Writer::Public };
                    if let Err((sig, msg)) = check_rows(&std::fs::read(&outp).unwrap_or_default(), &recs, &cfg) {
                        st.violate(&format!("cli.{}", sig), msg, case());
                    }
                    if k == 3 && !counts {
                        st.sample(Json::obj().set("argv", Json::s(args.join(" "))).set("header_starts", Json::s(cols(3).names[..4].join(delim))));
                    }
                }
            }
        }
    }
    st
}
