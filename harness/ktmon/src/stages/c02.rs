//! C02 — reverse complement / ACGT decoding are exact inverses; strands symmetric.
//! Observation points: KmerGenerator::rev_comp, kmer::numeric_to_kmer, iterator pairs.

use crate::common::*;
use kmer::kmer::KmerGenerator;
use kmer::numeric_to_kmer;
use refmodel::gen::{gen_len, gen_seq_any};
use refmodel::json::{parse_bytes, Json};
use refmodel::model;
use refmodel::rng::{hash_bytes, mix, Rng};

fn code_case(x: u64, k: usize) -> Json {
    Json::obj().set("code", Json::Int(x as i128)).set("k", Json::u(k)).set("text", Json::s(model::decode(x, k)))
}

/// monitor for one code
pub fn check_code(x: u64, k: usize) -> Option<(String, String)> {
    let r = match guarded(|| {
        let rc = KmerGenerator::rev_comp(x, k);
        let rcrc = KmerGenerator::rev_comp(rc, k);
        let txt = numeric_to_kmer(x, k);
        (rc, rcrc, txt)
    }) {
        Ok(r) => r,
        Err(p) => return Some((panic_sig(&p), format!("panicked: {}", p))),
    };
    let (rc, rcrc, txt) = r;
    if rcrc != x {
        return Some(("revcomp.involution".into(), format!("rc(rc({})) = {} for k={}", x, rcrc, k)));
    }
    let exp_rc = model::rc_code(x, k);
    if rc != exp_rc {
        return Some((
            "revcomp.value".into(),
            format!("rc({} = {}) = {} but reverse-complemented text encodes to {}", x, model::decode(x, k), rc, exp_rc),
        ));
    }
    if txt.len() != k || !txt.bytes().all(|b| matches!(b, b'A' | b'C' | b'G' | b'T')) {
        return Some(("decode.alphabet".into(), format!("numeric_to_kmer({}, {}) = {:?}: not {} letters over ACGT", x, k, txt, k)));
    }
    if model::encode(txt.as_bytes()) != Some(x as u128) {
        return Some(("decode.roundtrip".into(), format!("numeric_to_kmer({}, {}) = {:?} re-encodes to {:?}", x, k, txt, model::encode(txt.as_bytes()))));
    }
    None
}

fn judge_code(st: &mut Stats, x: u64, k: usize) {
    st.case(true, mix(x) ^ mix(k as u64 + 77));
    if let Some((sig, msg)) = check_code(x, k) {
        st.violate(&sig, msg, code_case(x, k));
    }
}

/// (a) all codes for k <= 10 (quick) / 12 (thorough)
pub fn codes(ctx: &Ctx) -> Stats {
    let kmax = ctx.pick(10usize, 12usize);
    let mut offsets = Vec::new();
    let mut total = 0u64;
    for k in 1..=kmax {
        offsets.push((k, total));
        total += 1u64 << (2 * k);
    }
    // work in blocks of 1024 codes
    let blocks = (total + 1023) / 1024;
    let mut st = par_cases(ctx, blocks, |b, st| {
        let start = b * 1024;
        for g in start..(start + 1024).min(total) {
            let (k, off) = *offsets.iter().rev().find(|(_, off)| *off <= g).unwrap();
            let x = g - off;
            judge_code(st, x, k);
        }
        if b % 997 == 3 {
            let g = start;
            let (k, off) = *offsets.iter().rev().find(|(_, off)| *off <= g).unwrap();
            st.sample(code_case(g - off, k));
        }
    });
    st.set_extra("exhaustive", Json::Bool(!st.truncated));
    st.set_extra("k_values", Json::s(format!("1..={} (all 4^k codes each)", kmax)));
    st
}

/// (b) k beyond the exhaustive range up to 31: extremes, patterns, palindromes, random codes
pub fn sampled(ctx: &Ctx) -> Stats {
    let per_k = ctx.n(20_000, 1_000_000);
    let kmin = ctx.pick(11usize, 13usize);
    let ks: Vec<usize> = (kmin..=31).collect();
    let n = ks.len() as u64 * per_k;
    let mut st = par_cases(ctx, n, |idx, st| {
        let k = ks[(idx % ks.len() as u64) as usize];
        let j = idx / ks.len() as u64;
        let top: u64 = if k == 32 { u64::MAX } else { (1u64 << (2 * k)) - 1 };
        let mut rng = Rng::keyed(ctx.seed, "c02.sampled", idx);
        let x = match j {
            0 => 0,
            1 => top,
            2 => 1,
            3 => 1u64 << (2 * (k - 1)),
            4 => 0x5555_5555_5555_5555 & top,
            5 => 0xAAAA_AAAA_AAAA_AAAA & top,
            6 => 0x3333_3333_3333_3333 & top,
            7 => top - 1,
            8 => 3u64 << (2 * (k - 1)),
            _ => {
                if j % 4 == 0 {
                    // reverse palindrome (even k) or near-palindrome (odd k)
                    let half = k / 2;
                    let h: Vec<u8> = (0..half).map(|_| *rng.pick(b"ACGT")).collect();
                    let mut s = h.clone();
                    if k % 2 == 1 {
                        s.push(*rng.pick(b"ACGT"));
                    }
                    s.extend_from_slice(&model::revcomp_text(&h));
                    st.class("palindromic");
                    model::encode(&s).unwrap() as u64
                } else {
                    st.class("uniform");
                    rng.next_u64() & top
                }
            }
        };
        if j < 9 {
            st.class("extreme/pattern");
        }
        judge_code(st, x, k);
        if idx % 40_009 == 11 {
            st.sample(code_case(x, k));
        }
    });
    st.set_extra("k_values", Json::s(format!("{}..=31", kmin)));
    st
}

fn seq_case(seq: &[u8], k: usize) -> Json {
    Json::obj().set("seq", Json::bytes(seq)).set("k", Json::u(k))
}

/// monitor for one sequence: pair relation, strand symmetry, canonical multiset
pub fn check_stream(seq: &[u8], k: usize) -> Option<(String, String)> {
    let rc_seq = model::revcomp_text(seq);
    let r = guarded(|| {
        let a: Vec<(u64, u64)> = KmerGenerator::new(seq, k).collect();
        let b: Vec<(u64, u64)> = KmerGenerator::new(&rc_seq, k).collect();
        (a, b)
    });
    let (a, b) = match r {
        Ok(v) => v,
        Err(p) => return Some((panic_sig(&p), format!("iterator panicked: {}", p))),
    };
    for (i, &(f, r)) in a.iter().enumerate() {
        let e = model::rc_code(f, k);
        if r != e {
            return Some((
                "pair.reverse_component".into(),
                format!("item {}: pair ({}, {}) but reverse complement of {} is {}", i, f, r, f, e),
            ));
        }
    }
    // stream of the reverse-complemented sequence = original reversed with strands swapped
    let mut exp: Vec<(u64, u64)> = a.iter().rev().map(|&(f, r)| (r, f)).collect();
    if b != exp {
        return Some((
            "stream.strand_symmetry".into(),
            format!("stream of revcomp(seq) has {} items, reversed/swapped original has {}; first difference at {:?}",
                b.len(), exp.len(), b.iter().zip(exp.iter()).position(|(x, y)| x != y)),
        ));
    }
    let mut ca: Vec<u64> = a.iter().map(|&(f, r)| f.min(r)).collect();
    let mut cb: Vec<u64> = b.iter().map(|&(f, r)| f.min(r)).collect();
    ca.sort_unstable();
    cb.sort_unstable();
    if ca != cb {
        return Some(("stream.canonical_multiset".into(), "canonical k-mer multisets of seq and revcomp(seq) differ".into()));
    }
    // the pair relation must hold for every way of consuming the iterator (positional adaptors included)
    if a.len() < 3000 {
        let adapt = guarded(|| {
            let sk: Vec<(u64, u64)> = KmerGenerator::new(seq, k).skip(1).step_by(2).collect();
            let n3 = a.len() / 3;
            let nth = KmerGenerator::new(seq, k).nth(n3);
            let mut it = KmerGenerator::new(seq, k);
            let _ = it.nth(1);
            let after: Vec<(u64, u64)> = it.take(5).collect();
            let last = KmerGenerator::new(seq, k).last();
            (sk, nth, after, last)
        });
        match adapt {
            Err(p) => return Some((panic_sig(&p), format!("iterator panicked under an adaptor: {}", p))),
            Ok((sk, nth, after, last)) => {
                let want_sk: Vec<(u64, u64)> = a.iter().skip(1).step_by(2).copied().collect();
                let want_after: Vec<(u64, u64)> = a.iter().skip(2).take(5).copied().collect();
                if sk != want_sk || nth != a.get(a.len() / 3).copied() || after != want_after || last != a.last().copied() {
                    let bad_rev = sk.iter().chain(after.iter()).chain(nth.iter()).chain(last.iter()).any(|&(f, r)| r != model::rc_code(f, k));
                    return Some((
                        if bad_rev { "pair.reverse_component:adaptor".into() } else { "stream.adaptor".into() },
                        "pairs delivered through skip / step_by / nth / last differ from the pairs of a plain pass".into(),
                    ));
                }
            }
        }
    }
    // the canonical multiset must also be the reference one
    let mut cr = model::canonical_stream(seq, k);
    cr.sort_unstable();
    if ca != cr {
        return Some(("stream.canonical_reference".into(), "canonical k-mer multiset differs from the text-level reference".into()));
    }
    exp.clear();
    None
}

fn judge_stream(st: &mut Stats, seq: &[u8], k: usize) {
    st.case(seq.len() >= k, hash_bytes(seq) ^ mix(k as u64));
    if let Some((sig, msg)) = check_stream(seq, k) {
        st.violate(&sig, msg, seq_case(seq, k));
    }
}

/// (c) stream symmetry on random sequences of every class, every k
pub fn streams(ctx: &Ctx) -> Stats {
    let n = ctx.n(60_000, 3_000_000);
    par_cases(ctx, n, |idx, st| {
        let mut rng = Rng::keyed(ctx.seed, "c02.streams", idx);
        let k = (idx % 31) as usize + 1;
        let len = gen_len(&mut rng, k, None, k + 80);
        let (class, mut seq) = gen_seq_any(&mut rng, len, false);
        if idx % 20_000 == 19 {
            // a record with far more than 2^16 consecutive unambiguous bases (counter widths)
            seq = (0..rng.usize(66_000, 140_000)).map(|_| *rng.pick(b"ACGT")).collect();
            st.class("clean-run>65536");
        }
        st.class(class.name());
        judge_stream(st, &seq, k);
        if idx % 9973 == 5 {
            st.sample(seq_case(&seq, k).set("class", Json::s(class.name())));
        }
    })
}

/// The very first use of the k-mer primitives in a process, made by many threads at the same instant (anything that is
/// initialised lazily on first use is initialised under contention here).  The parent stage starts a few hundred fresh
/// processes of the child stage; each child releases 16 threads from a barrier into their first calls.
pub fn firstcall(ctx: &Ctx) -> Stats {
    let mut st = Stats::new();
    let n = ctx.n(150, 1500);
    let exe = std::env::current_exe().expect("own path");
    for i in 0..n {
        if ctx.expired() {
            st.truncated = true;
            break;
        }
        let out = ctx.work.join(format!("firstcall-{}.json", i % 4));
        let r = std::process::Command::new(&exe)
            .args(["c02.firstcall.child", "--seed", &(ctx.seed.wrapping_mul(1_000_003).wrapping_add(i)).to_string(), "--tier", "quick", "--work"])
            .arg(&ctx.work)
            .arg("--replay-dir")
            .arg(&ctx.replay_dir)
            .arg("--out")
            .arg(&out)
            .args(["--flavour", &ctx.flavour, "--budget", "60"])
            .stdout(std::process::Stdio::null())
            .stderr(std::process::Stdio::piped())
            .output();
        st.case(true, mix(i) ^ mix(ctx.seed));
        match r {
            Err(e) => st.inconclusive(format!("cannot start the child process: {}", e)),
            Ok(o) => {
                let text = std::fs::read_to_string(&out).unwrap_or_default();
                match Json::parse(&text) {
                    Ok(j) => {
                        let v = j.get("violations_total").and_then(|x| x.as_i()).unwrap_or(0);
                        if v > 0 {
                            let sigs = j.get("violations_by_sig").map(|x| x.to_string()).unwrap_or_default();
                            let first = j.get("violations").and_then(|a| a.as_arr()).and_then(|a| a.first().cloned()).unwrap_or(Json::Null);
                            st.violate(
                                "firstcall.concurrent_first_use",
                                format!("a fresh process whose first k-mer calls were made by 16 threads at once produced wrong results: {}", sigs),
                                Json::obj().set("child_seed", Json::Int(ctx.seed.wrapping_mul(1_000_003).wrapping_add(i) as i128)).set("first_violation_of_child", first),
                            );
                        }
                    }
                    Err(_) => {
                        if !o.status.success() {
                            st.violate("firstcall.child_died", format!("child process died: {:?} {}", o.status, String::from_utf8_lossy(&o.stderr).chars().take(300).collect::<String>()), Json::obj().set("i", Json::Int(i as i128)));
                        } else {
                            st.inconclusive("child wrote no result".into());
                        }
                    }
                }
            }
        }
    }
    st.set_extra("fresh_processes", Json::Int(st.evaluations as i128));
    st.set_extra("threads_released_at_once_per_process", Json::u(16));
    st
}

pub fn firstcall_child(ctx: &Ctx) -> Stats {
    use std::sync::{Arc, Barrier, Mutex};
    let threads = 16usize;
    let barrier = Arc::new(Barrier::new(threads));
    let merged = Mutex::new(Stats::new());
    std::thread::scope(|sc| {
        for t in 0..threads {
            let barrier = barrier.clone();
            let merged = &merged;
            sc.spawn(move || {
                let mut local = Stats::new();
                let mut rng = Rng::keyed(ctx.seed, "c02.firstcall", t as u64);
                // everything is prepared before the barrier; the first calls into the crate happen right after it
                let k = rng.usize(1, 31);
                let top: u64 = (1u64 << (2 * k)) - 1;
                let xs: Vec<u64> = (0..24).map(|_| rng.next_u64() & top).collect();
                let exp: Vec<u64> = xs.iter().map(|&x| model::rc_code(x, k)).collect();
                let seq: Vec<u8> = (0..rng.usize(k, k + 40)).map(|_| *rng.pick(b"ACGTacgtuNn")).collect();
                let kk = rng.usize(1, 6);
                let canon = model::canonical_list(kk);
                barrier.wait();
                let which = t % 3;
                for (i, (&x, &e)) in xs.iter().zip(exp.iter()).enumerate() {
                    local.case(true, mix(x) ^ mix(k as u64));
                    if which != 2 || i > 0 {
                        let r = KmerGenerator::rev_comp(x, k);
                        if r != e {
                            local.violate("firstcall.revcomp", format!("thread {} call {}: rc({}, k={}) = {}, expected {}", t, i, x, k, r, e), code_case(x, k));
                            break;
                        }
                    }
                    if i == 0 {
                        if let Some((sig, msg)) = check_stream(&seq, k.min(seq.len().max(1))) {
                            local.violate(&format!("firstcall.{}", sig), msg, seq_case(&seq, k));
                            break;
                        }
                        let (_pm, pk, cnt) = KmerGenerator::kmer_pos_maps(kk);
                        if cnt != canon.len() || (0..cnt).any(|r| pk.get(&r) != Some(&canon[r])) {
                            local.violate("firstcall.posmap", format!("thread {}: kmer_pos_maps({}) wrong on first use", t, kk), Json::obj().set("k", Json::u(kk)));
                            break;
                        }
                        let txt = numeric_to_kmer(x, k);
                        if model::encode(txt.as_bytes()) != Some(x as u128) {
                            local.violate("firstcall.decode", format!("thread {}: numeric_to_kmer({}, {}) = {:?}", t, x, k, txt), code_case(x, k));
                            break;
                        }
                    }
                }
                merged.lock().unwrap().merge(local);
            });
        }
    });
    merged.into_inner().unwrap()
}

pub fn replay(case: &Json, st: &mut Stats) {
    let k = case.get("k").and_then(|k| k.as_i()).unwrap_or(1) as usize;
    if let Some(c) = case.get("code").and_then(|c| c.as_i()) {
        judge_code(st, c as u64, k);
    } else {
        let seq = parse_bytes(case.get("seq").and_then(|s| s.as_str()).unwrap_or(""));
        judge_stream(st, &seq, k);
    }
}
