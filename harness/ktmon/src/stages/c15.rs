//! C15 — command-line options mean what they say and nothing more.
//! Metamorphic relations between runs of the real binary + equality with the library called
//! in-process with the same settings.

use super::c07::{run_counter, CtrCfg};
use super::c08::{run_cov, CovCfg};
use super::c10::{run_min, MinMode};
use super::oligo::*;
use crate::common::*;
use crate::util::*;
use composition::cgr::CgrComputer;
use composition::oligocgr::OligoCgrComputer;
use refmodel::gen::{gen_records, gen_seq, Rec, SeqClass};
use refmodel::json::Json;
use refmodel::model;
use refmodel::rng::{hash_bytes, mix, Rng};
use refmodel::ser::{self, SerOpts};

fn sorted_lines(data: &[u8]) -> Vec<Vec<u8>> {
    let mut v: Vec<Vec<u8>> = lines(data).iter().map(|l| l.to_vec()).collect();
    v.sort();
    v
}

/// m2s values are unordered lists: normalise each line by sorting the tuples textually
fn normalise_m2s(data: &[u8]) -> Vec<String> {
    super::c10::normalise_m2s(data)
}

struct Run {
    ctx_ok: bool,
    out: CliOut,
}

fn go(ctx: &Ctx, st: &mut Stats, args: &[String], stdin: Option<&[u8]>) -> Option<CliOut> {
    let out = run_cli(ctx, args, stdin, &CliLimits::default());
    if out.timed_out && !out.cpu_exceeded && !out.stalled {
        st.inconclusive(format!("CLI watchdog: {} :: {}", args.join(" "), out.describe()));
        return None;
    }
    let _ = Run { ctx_ok: true, out: out.clone() }.ctx_ok;
    Some(out)
}

fn nuc_records(rng: &mut Rng, n: usize, max_len: usize) -> Vec<Rec> {
    (0..n)
        .map(|i| {
            let len = rng.usize(1, max_len);
            let c = *rng.pick(&[SeqClass::Uniform, SeqClass::MixedCaseU, SeqClass::TwoLetter, SeqClass::Tandem]);
            Rec { id: format!("r{}", i), desc: None, seq: gen_seq(rng, c, len, true) }
        })
        .collect()
}

/// relations between runs (presets, -H, -t, -c, --acgt, stdin) and CLI == library
pub fn relations(ctx: &Ctx) -> Stats {
    let n = ctx.n(40, 1000);
    par_cases(ctx, n, |idx, st| {
        let mut rng = Rng::keyed(ctx.seed, "c15.relations", idx);
        let group = idx % 8;
        let sc = Scratch::new(ctx, "c15");
        let nrec = rng.usize(1, 25);
        let recs = if group == 3 { nuc_records(&mut rng, nrec, 120) } else { gen_records(&mut rng, nrec, 7, Some(20), 200, 0) };
        // the file may arrive in any container the reader accepts; what is piped to stdin stays plain FASTA
        let raw = ser::to_fasta(&recs, &SerOpts::plain());
        let fastq_ok = !recs.is_empty() && recs.iter().all(|r| !r.seq.is_empty());
        let (data, name): (Vec<u8>, &str) = match rng.below(7) {
            0 if fastq_ok => (ser::to_fastq(&recs, &SerOpts::plain()), "in.fq"),
            1 if fastq_ok => (ser::to_fastq(&recs, &SerOpts { wrap: Some(rng.usize(10, 60)), crlf: false, final_newline: rng.chance(1, 2) }), "in.fastq"),
            2 => (ser::to_fasta(&recs, &SerOpts::random(&mut rng)), "in.fasta"),
            3 => (ser::gzip(&raw, &ser::GzLayout::Multi(rng.usize(2, 4)), &mut rng), "in.fa.gz"),
            _ => (raw.clone(), "in.fa"),
        };
        st.class(&format!("input container {}", name));
        let inp = sc.write(name, &data);
        st.case(true, mix(idx) ^ hash_bytes(&raw));
        let viol = |st: &mut Stats, sig: &str, msg: String, argv: &[String]| {
            st.violate(sig, msg, Json::obj().set("argv", Json::s(argv.join(" "))).set("records", recs_json(&recs)));
        };
        match group {
            // ---- oligo: presets, -H, -t, -c vs default, stdin, == library
            0 | 1 => {
                st.class("comp oligo");
                let k = rng.usize(3, 6);
                let counts = group == 1;
                let base_args = |o: &str, extra: &[&str]| {
                    let mut a = sv(&["comp", "oligo", "-i", &inp, "-o", o, "-k", &k.to_string()]);
                    if counts {
                        a.push("-c".into());
                    }
                    a.extend(extra.iter().map(|s| s.to_string()));
                    a
                };
                let mut outs: Vec<(String, Vec<u8>, Vec<String>)> = Vec::new();
                let variants: Vec<(&str, Vec<&str>)> = vec![
                    ("spc", vec!["-p", "spc"]),
                    ("csv", vec!["-p", "csv"]),
                    ("tsv", vec!["-p", "tsv"]),
                    ("default", vec![]),
                    ("-H", vec!["-H"]),
                    ("-t 1", vec!["-t", "1"]),
                    ("-t 7", vec!["-t", "7"]),
                    ("-t 16", vec!["-t", "16"]),
                    ("-t 0", vec!["-t", "0"]),
                ];
                for (name, extra) in &variants {
                    let o = sc.path(&format!("o-{}.txt", outs.len()));
                    let a = base_args(&o, extra);
                    let r = match go(ctx, st, &a, None) {
                        Some(r) => r,
                        None => return,
                    };
                    if !r.ok() {
                        viol(st, "cli.oligo.exit", format!("[{}] {}", name, r.describe()), &a);
                        return;
                    }
                    outs.push((name.to_string(), std::fs::read(&o).unwrap_or_default(), a));
                }
                let spc = outs[0].1.clone();
                let map = |d: &[u8], from: u8| d.iter().map(|&b| if b == from { b' ' } else { b }).collect::<Vec<u8>>();
                if map(&outs[1].1, b',') != spc {
                    viol(st, "cli.preset.csv", "csv output differs from spc output by more than the delimiter".into(), &outs[1].2);
                    return;
                }
                if map(&outs[2].1, b'\t') != spc {
                    viol(st, "cli.preset.tsv", "tsv output differs from spc output by more than the delimiter".into(), &outs[2].2);
                    return;
                }
                // -H together with a preset: the column line uses the preset's delimiter too
                for (preset, delim) in [("csv", ","), ("tsv", "\t")] {
                    let o = sc.path(&format!("o-H-{}.txt", preset));
                    let a = base_args(&o, &["-H", "-p", preset]);
                    if let Some(r) = go(ctx, st, &a, None) {
                        if !r.ok() {
                            viol(st, "cli.oligo.exit", format!("[-H -p {}] {}", preset, r.describe()), &a);
                            return;
                        }
                        let d = std::fs::read(&o).unwrap_or_default();
                        let first = d.split(|&b| b == b'\n').next().unwrap_or(&[]).to_vec();
                        if first != cols(k).names.join(delim).into_bytes() {
                            viol(st, "cli.header.preset_delimiter", format!("-H -p {}: the header line is not the k-mer list joined by the preset's delimiter", preset), &a);
                            return;
                        }
                        let body_mapped: Vec<u8> = d[(first.len() + 1).min(d.len())..].iter().map(|&b| if b == delim.as_bytes()[0] { b' ' } else { b }).collect();
                        if body_mapped != spc {
                            viol(st, "cli.header.extra_change", format!("-H -p {} changes the rows", preset), &a);
                            return;
                        }
                    }
                }
                // -H adds exactly one leading line
                let h = &outs[4].1;
                let first_nl = h.iter().position(|&b| b == b'\n').map(|p| p + 1).unwrap_or(h.len());
                if h[first_nl..] != spc[..] {
                    viol(st, "cli.header.extra_change", "-H changes more than one leading line".into(), &outs[4].2);
                    return;
                }
                if h[..first_nl] != [cols(k).names.join(" ").as_bytes(), b"\n"].concat()[..] {
                    viol(st, "cli.header.line", "-H line is not the canonical k-mer list".into(), &outs[4].2);
                    return;
                }
                for j in 5..9 {
                    if outs[j].1 != spc {
                        viol(st, "cli.threads.changes_result", format!("[{}] changes the output bytes", outs[j].0), &outs[j].2);
                        return;
                    }
                }
                // stdin == file
                let o = sc.path("o-stdin.txt");
                let mut a = sv(&["comp", "oligo", "-i", "-", "-o", &o, "-k", &k.to_string()]);
                if counts {
                    a.push("-c".into());
                }
                if let Some(r) = go(ctx, st, &a, Some(&raw)) {
                    if !r.ok() {
                        viol(st, "cli.oligo.stdin.exit", r.describe(), &a);
                        return;
                    }
                    if std::fs::read(&o).unwrap_or_default() != spc {
                        viol(st, "cli.stdin.changes_result", "stdin input gives different bytes than the same file".into(), &a);
                        return;
                    }
                }
                // counts vs default: per-row normalisation
                let o2 = sc.path("o-other.txt");
                let mut a2 = sv(&["comp", "oligo", "-i", &inp, "-o", &o2, "-k", &k.to_string()]);
                if !counts {
                    a2.push("-c".into());
                }
                if let Some(r) = go(ctx, st, &a2, None) {
                    if !r.ok() {
                        viol(st, "cli.oligo.exit", r.describe(), &a2);
                        return;
                    }
                    let other = std::fs::read(&o2).unwrap_or_default();
                    let (cnt, nrm) = if counts { (spc.clone(), other) } else { (other, spc.clone()) };
                    let cl = lines(&cnt);
                    let nl = lines(&nrm);
                    if cl.len() != nl.len() {
                        viol(st, "cli.counts.rows", format!("-c output has {} rows, default {}", cl.len(), nl.len()), &a2);
                        return;
                    }
                    for (i, (c, n)) in cl.iter().zip(nl.iter()).enumerate() {
                        let cv: Vec<f64> = split_fields(c, b" ").iter().filter_map(|f| parse_f64(f)).collect();
                        let nv: Vec<f64> = split_fields(n, b" ").iter().filter_map(|f| parse_f64(f)).collect();
                        let t: f64 = cv.iter().sum();
                        if cv.len() != nv.len() || cv.iter().zip(nv.iter()).any(|(c, n)| !frac_matches(*n, *c as u64, t as u64)) {
                            viol(st, "cli.counts.normalisation", format!("row {}: default output is not the -c row divided by its total", i), &a2);
                            return;
                        }
                    }
                }
                // == library
                let cfg = OligoCfg { k, threads: 2, memory: 4 << 30, header: false, delim: " ".into(), norm: !counts, writer: Writer::Public };
                let lib = run_oligo(&inp, &sc.path("lib.txt"), &cfg, None);
                if let (Ok(Ok(())), Some(d)) = (&lib.result, &lib.output) {
                    if d != &spc {
                        viol(st, "cli.vs_library.oligo", "CLI bytes differ from OligoComputer::vectorise() with the same settings".into(), &outs[0].2);
                    }
                }
            }
            // ---- k-mer CGR: -t, -c vs default, -v, == library
            2 => {
                st.class("comp cgr -k");
                let k = rng.usize(3, 5);
                let v = rng.usize(1, 64);
                let mut outs = Vec::new();
                for extra in [vec!["-t", "1"], vec!["-t", "9"], vec![]] {
                    let o = sc.path(&format!("o{}.txt", outs.len()));
                    let mut a = sv(&["comp", "cgr", "-i", &inp, "-o", &o, "-k", &k.to_string(), "-v", &v.to_string()]);
                    a.extend(extra.iter().map(|s| s.to_string()));
                    let r = match go(ctx, st, &a, None) {
                        Some(r) => r,
                        None => return,
                    };
                    if !r.ok() {
                        viol(st, "cli.kcgr.exit", r.describe(), &a);
                        return;
                    }
                    outs.push((std::fs::read(&o).unwrap_or_default(), a));
                }
                if outs[1].0 != outs[0].0 || outs[2].0 != outs[0].0 {
                    viol(st, "cli.threads.changes_result", "comp cgr -k output depends on -t".into(), &outs[1].1);
                    return;
                }
                let outp = sc.path("lib.txt");
                let r = guarded(|| {
                    let mut c = OligoCgrComputer::new(inp.clone(), outp.clone(), k, v);
                    c.set_threads(2);
                    c.set_norm(true);
                    c.vectorise()
                });
                if let Ok(Ok(())) = r {
                    if std::fs::read(&outp).unwrap_or_default() != outs[0].0 {
                        viol(st, "cli.vs_library.kcgr", "CLI bytes differ from OligoCgrComputer::vectorise() with the same settings".into(), &outs[0].1);
                        return;
                    }
                }
                // -c == library with norm off
                let o = sc.path("oc.txt");
                let a = sv(&["comp", "cgr", "-i", &inp, "-o", &o, "-k", &k.to_string(), "-v", &v.to_string(), "-c"]);
                if let Some(r) = go(ctx, st, &a, None) {
                    if !r.ok() {
                        viol(st, "cli.kcgr.exit", r.describe(), &a);
                        return;
                    }
                    let outp2 = sc.path("libc.txt");
                    let rr = guarded(|| {
                        let mut c = OligoCgrComputer::new(inp.clone(), outp2.clone(), k, v);
                        c.set_threads(2);
                        c.set_norm(false);
                        c.vectorise()
                    });
                    if let Ok(Ok(())) = rr {
                        if std::fs::read(&outp2).unwrap_or_default() != std::fs::read(&o).unwrap_or_default() {
                            viol(st, "cli.vs_library.kcgr_counts", "comp cgr -k -c differs from the library with normalisation off".into(), &a);
                        }
                    }
                }
            }
            // ---- whole-sequence CGR: -t, -v, == library
            3 => {
                st.class("comp cgr");
                let v = rng.usize(1, 1000);
                let mut outs = Vec::new();
                for extra in [vec!["-t", "1"], vec!["-t", "13"]] {
                    let o = sc.path(&format!("o{}.txt", outs.len()));
                    let mut a = sv(&["comp", "cgr", "-i", &inp, "-o", &o, "-v", &v.to_string()]);
                    a.extend(extra.iter().map(|s| s.to_string()));
                    let r = match go(ctx, st, &a, None) {
                        Some(r) => r,
                        None => return,
                    };
                    if !r.ok() {
                        viol(st, "cli.cgr.exit", r.describe(), &a);
                        return;
                    }
                    outs.push((std::fs::read(&o).unwrap_or_default(), a));
                }
                if outs[1].0 != outs[0].0 {
                    viol(st, "cli.threads.changes_result", "comp cgr output depends on -t".into(), &outs[1].1);
                    return;
                }
                let outp = sc.path("lib.txt");
                let r = guarded(|| {
                    let mut c = CgrComputer::new(inp.clone(), outp.clone(), v);
                    c.set_threads(2);
                    c.vectorise()
                });
                if let Ok(Ok(())) = r {
                    if std::fs::read(&outp).unwrap_or_default() != outs[0].0 {
                        viol(st, "cli.vs_library.cgr", "CLI bytes differ from CgrComputer::vectorise() with the same settings".into(), &outs[0].1);
                    }
                }
            }
            // ---- cov: presets, -t, --counts, --alt-input, == library
            4 | 5 => {
                st.class("cov");
                let k = rng.usize(7, 15);
                let bs = rng.usize(5, 12);
                let bc = rng.usize(5, 12);
                let alt = if group == 5 {
                    let na = rng.usize(1, 10);
                    // the alternative input is of the other format family every other time (.fq next to .fa)
                    let a = gen_records(&mut rng, na, k, None, 200, 1);
                    if idx % 16 >= 8 {
                        Some(sc.write("alt.fq", &ser::to_fastq(&a, &SerOpts::plain())))
                    } else {
                        Some(sc.write("alt.fa", &ser::to_fasta(&a, &SerOpts::plain())))
                    }
                } else {
                    None
                };
                let mk = |o: &str, extra: &[&str]| {
                    let mut a = sv(&["cov", "-i", &inp, "-o", o, "-k", &k.to_string(), "-s", &bs.to_string(), "-c", &bc.to_string()]);
                    if let Some(p) = &alt {
                        a.push("-a".into());
                        a.push(p.clone());
                    }
                    a.extend(extra.iter().map(|s| s.to_string()));
                    a
                };
                let mut outs: Vec<(Vec<u8>, Vec<String>)> = Vec::new();
                for extra in [vec!["-p", "spc", "-t", "1"], vec!["-p", "csv", "-t", "5"], vec!["-p", "tsv", "-t", "16"], vec!["-t", "0", "-m", "17"]] {
                    let o = sc.path(&format!("d{}", outs.len()));
                    let a = mk(&o, &extra);
                    let r = match go(ctx, st, &a, None) {
                        Some(r) => r,
                        None => return,
                    };
                    if !r.ok() {
                        viol(st, "cli.cov.exit", r.describe(), &a);
                        return;
                    }
                    outs.push((std::fs::read(format!("{}/kmers.vectors", o)).unwrap_or_default(), a));
                }
                let spc = outs[0].0.clone();
                let map = |d: &[u8], from: u8| d.iter().map(|&b| if b == from { b' ' } else { b }).collect::<Vec<u8>>();
                if map(&outs[1].0, b',') != spc || map(&outs[2].0, b'\t') != spc {
                    viol(st, "cli.preset.cov", "cov presets / thread counts change more than the delimiter".into(), &outs[1].1);
                    return;
                }
                if outs[3].0 != spc {
                    viol(st, "cli.threads.changes_result", "cov output depends on -t / -m".into(), &outs[3].1);
                    return;
                }
                let cfg = CovCfg { k, bin_size: bs, bin_count: bc, norm: true, threads: 2, mem_gb: 6.0, delim: " ".into(), alt: alt.is_some() };
                if let Ok(d) = run_cov(&inp, alt.as_deref(), &sc.subdir("lib"), &cfg) {
                    if d != spc {
                        viol(st, if alt.is_some() { "cli.vs_library.cov_alt" } else { "cli.vs_library.cov" }, "CLI vectors differ from CovComputer with the same settings".into(), &outs[0].1);
                        return;
                    }
                }
                // --counts vs default: per-row normalisation
                let o = sc.path("dc");
                let a = mk(&o, &["--counts"]);
                if let Some(r) = go(ctx, st, &a, None) {
                    if !r.ok() {
                        viol(st, "cli.cov.exit", r.describe(), &a);
                        return;
                    }
                    let cnt = std::fs::read(format!("{}/kmers.vectors", o)).unwrap_or_default();
                    let cl = lines(&cnt);
                    let nl = lines(&spc);
                    if cl.len() != nl.len() {
                        viol(st, "cli.counts.rows", format!("--counts output has {} rows, default {}", cl.len(), nl.len()), &a);
                        return;
                    }
                    for (i, (c, n)) in cl.iter().zip(nl.iter()).enumerate() {
                        let cv: Vec<f64> = split_fields(c, b" ").iter().filter_map(|f| parse_f64(f)).collect();
                        let nv: Vec<f64> = split_fields(n, b" ").iter().filter_map(|f| parse_f64(f)).collect();
                        let t: f64 = cv.iter().sum();
                        if cv.len() != nv.len() || cv.iter().zip(nv.iter()).any(|(c, n)| !frac_matches(*n, *c as u64, t as u64)) {
                            viol(st, "cli.counts.normalisation", format!("cov row {}: default output is not the --counts row divided by its total", i), &a);
                            return;
                        }
                    }
                }
            }
            // ---- ctr: -t (set of lines), --acgt only changes rendering, == library
            6 => {
                st.class("ctr");
                let k = rng.usize(10, 31);
                let mut outs: Vec<(Vec<u8>, Vec<String>)> = Vec::new();
                for extra in [vec!["-t", "1"], vec!["-t", "11"], vec!["-t", "0", "-m", "9"], vec!["--acgt", "-t", "3"]] {
                    let o = sc.path(&format!("d{}", outs.len()));
                    let mut a = sv(&["ctr", "-i", &inp, "-o", &o, "-k", &k.to_string()]);
                    a.extend(extra.iter().map(|s| s.to_string()));
                    let r = match go(ctx, st, &a, None) {
                        Some(r) => r,
                        None => return,
                    };
                    if !r.ok() {
                        viol(st, "cli.ctr.exit", r.describe(), &a);
                        return;
                    }
                    outs.push((std::fs::read(format!("{}/kmers.counts", o)).unwrap_or_default(), a));
                }
                let base = sorted_lines(&outs[0].0);
                if sorted_lines(&outs[1].0) != base || sorted_lines(&outs[2].0) != base {
                    viol(st, "cli.threads.changes_result", "ctr counts (as a set of lines) depend on -t / -m".into(), &outs[1].1);
                    return;
                }
                // --acgt: numeric output mapped through the reference decoder
                let mut mapped: Vec<Vec<u8>> = Vec::new();
                for l in lines(&outs[0].0) {
                    let s = String::from_utf8_lossy(l).into_owned();
                    if let Some((key, v)) = s.split_once('\t') {
                        if let Ok(code) = key.parse::<u64>() {
                            mapped.push(format!("{}\t{}", model::decode(code, k), v).into_bytes());
                            continue;
                        }
                    }
                    mapped.push(l.to_vec());
                }
                mapped.sort();
                if sorted_lines(&outs[3].0) != mapped {
                    viol(st, "cli.acgt.rendering", "--acgt output is not the numeric output with k-mers rendered as text".into(), &outs[3].1);
                    return;
                }
                let cfg = CtrCfg { k, threads: 2, mem_gb: 6.0, acgt: false };
                let run = run_counter(&inp, &sc.subdir("lib"), &cfg, None);
                if let (Ok(()), Some(d)) = (&run.result, &run.counts_raw) {
                    if sorted_lines(d) != base {
                        viol(st, "cli.vs_library.ctr", "CLI counts differ from CountComputer with the same settings".into(), &outs[0].1);
                    }
                }
            }
            // ---- min: -t (set of lines / multisets), == library
            _ => {
                st.class("min");
                let m = rng.usize(7, 12);
                let w = if rng.chance(1, 2) { 0 } else { m + rng.usize(1, 20) };
                for (preset, mode) in [("s2m", MinMode::S2m), ("m2s", MinMode::M2s)] {
                    let mut outs: Vec<(Vec<u8>, Vec<String>)> = Vec::new();
                    for t in ["1", "9", "0"] {
                        let o = sc.path(&format!("{}-{}.txt", preset, outs.len()));
                        let a = sv(&["min", "-i", &inp, "-o", &o, "-m", &m.to_string(), "-w", &w.to_string(), "-p", preset, "-t", t]);
                        let r = match go(ctx, st, &a, None) {
                            Some(r) => r,
                            None => return,
                        };
                        if !r.ok() {
                            let short = w == 0 && recs.iter().any(|r| r.seq.len() < m);
                            viol(st, if short && r.stderr.contains("capacity overflow") { "cli.min.w0.short" } else { "cli.min.exit" }, r.describe(), &a);
                            return;
                        }
                        outs.push((std::fs::read(&o).unwrap_or_default(), a));
                    }
                    let norm = |d: &[u8]| if mode == MinMode::M2s { normalise_m2s(d) } else { sorted_lines(d).iter().map(|l| String::from_utf8_lossy(l).into_owned()).collect() };
                    let base = norm(&outs[0].0);
                    if norm(&outs[1].0) != base || norm(&outs[2].0) != base {
                        viol(st, "cli.threads.changes_result", format!("min -p {} output (as a set of lines) depends on -t", preset), &outs[1].1);
                        return;
                    }
                    let lp = sc.path("lib.txt");
                    let r = run_min(mode, w, m, &inp, &lp, 2, None);
                    if let (Ok(()), Some(d)) = (&r.0, &r.1) {
                        if norm(d) != base {
                            viol(st, "cli.vs_library.min", format!("min -p {} differs from the library with the same settings", preset), &outs[0].1);
                            return;
                        }
                    }
                }
            }
        }
        if idx % 9 == 0 {
            st.sample(Json::obj().set("relation_group", Json::s(["oligo", "oligo -c", "cgr -k", "cgr", "cov", "cov --alt-input", "ctr", "min"][group as usize])).set("records", Json::u(recs.len())));
        }
    })
}

/// `-t` on inputs of thousands of records (ordered outputs): byte equality between -t 1 and -t N for
/// comp oligo (default, -c, stdin), comp cgr -k and cov
pub fn threads_manyrecs(ctx: &Ctx) -> Stats {
    let n = ctx.n(4, 40);
    par_cases(ctx, n, |idx, st| {
        let mut rng = Rng::keyed(ctx.seed, "c15.threads_manyrecs", idx);
        let nrec = rng.usize(1500, 9000);
        let recs = super::c05::many_records(&mut rng, nrec);
        let nrec = recs.len();
        let sc = Scratch::new(ctx, "c15m");
        let inp = sc.write("in.fa", &ser::to_fasta(&recs, &SerOpts::plain()));
        let raw = std::fs::read(&inp).unwrap();
        st.case(true, mix(idx) ^ hash_bytes(&recs[0].seq) ^ mix(nrec as u64));
        let which = idx % 5;
        st.class(["oligo", "oligo -c", "oligo stdin", "cgr -k", "cov"][which as usize]);
        let mk = |o: &str, t: &str| -> (Vec<String>, bool, bool) {
            match which {
                0 => (sv(&["comp", "oligo", "-i", &inp, "-o", o, "-k", "3", "-t", t]), false, false),
                1 => (sv(&["comp", "oligo", "-i", &inp, "-o", o, "-k", "3", "-c", "-H", "-t", t]), false, false),
                2 => (sv(&["comp", "oligo", "-i", "-", "-o", o, "-k", "4", "-t", t]), true, false),
                3 => (sv(&["comp", "cgr", "-i", &inp, "-o", o, "-k", "3", "-c", "-t", t]), false, false),
                _ => (sv(&["cov", "-i", &inp, "-o", o, "-k", "9", "-s", "5", "-c", "6", "-t", t]), false, true),
            }
        };
        let mut outs: Vec<Vec<u8>> = Vec::new();
        for (j, t) in ["1", "8", "16", "3"].iter().enumerate() {
            let o = sc.path(&format!("o{}", j));
            let (a, stdin, dir) = mk(&o, t);
            let r = match go(ctx, st, &a, if stdin { Some(&raw) } else { None }) {
                Some(r) => r,
                None => return,
            };
            if !r.ok() {
                st.violate("cli.manyrecs.exit", r.describe(), Json::obj().set("argv", Json::s(a.join(" "))).set("n_records", Json::u(nrec)));
                return;
            }
            outs.push(std::fs::read(if dir { format!("{}/kmers.vectors", o) } else { o.clone() }).unwrap_or_default());
            if j > 0 && outs[j] != outs[0] {
                st.violate(
                    "cli.threads.changes_result:manyrecs",
                    format!("-t {} gives different bytes than -t 1 on {} records ({} vs {} bytes)", t, nrec, outs[j].len(), outs[0].len()),
                    Json::obj().set("argv", Json::s(a.join(" "))).set("n_records", Json::u(nrec)).set("records", recs_json(&recs)),
                );
                return;
            }
        }
        if lines(&outs[0]).len() != nrec + if which == 1 { 1 } else { 0 } {
            st.violate("cli.manyrecs.rowcount", format!("{} lines for {} records", lines(&outs[0]).len(), nrec), Json::obj().set("n_records", Json::u(nrec)));
        }
        if idx % 3 == 0 {
            st.sample(Json::obj().set("what", Json::s(["oligo", "oligo -c -H", "oligo stdin", "cgr -k -c", "cov"][which as usize])).set("n_records", Json::u(nrec)).set("threads", Json::s("1, 8, 16, 3")));
        }
    })
}

/// results must not depend on the environment: RAYON_NUM_THREADS, the working directory, relative vs
/// absolute paths, paths with spaces / unicode / extra dots, a locale
pub fn env_paths(ctx: &Ctx) -> Stats {
    let n = ctx.n(10, 150);
    par_cases(ctx, n, |idx, st| {
        let mut rng = Rng::keyed(ctx.seed, "c15.env_paths", idx);
        let nrec = rng.usize(2, 30);
        let recs = gen_records(&mut rng, nrec, 7, Some(20), 200, 0);
        let sc = Scratch::new(ctx, "c15e");
        let weird = sc.subdir("dir with space.fq \u{e9}\u{4e2d}");
        let fasta = ser::to_fasta(&recs, &SerOpts::plain());
        let abs_in = sc.write("plain.fa", &fasta);
        let weird_in = format!("{}/my reads.v1.2.fa", weird);
        std::fs::write(&weird_in, &fasta).unwrap();
        st.case(true, mix(idx) ^ hash_bytes(&fasta));
        let which = idx % 5;
        st.class(["oligo", "oligo -c", "cgr -k", "cov", "min"][which as usize]);
        // (args before -i/-o, result file relative to the -o path, ordered output?)
        let base: (Vec<String>, &str, bool) = match which {
            0 => (sv(&["comp", "oligo", "-k", "4", "-H"]), "", true),
            1 => (sv(&["comp", "oligo", "-k", "3", "-c"]), "", true),
            2 => (sv(&["comp", "cgr", "-k", "3", "-v", "16"]), "", true),
            3 => (sv(&["cov", "-k", "8", "-s", "5", "-c", "6"]), "/kmers.vectors", true),
            _ => (sv(&["min", "-m", "7", "-w", "11", "-p", "s2m"]), "", false),
        };
        let run = |st: &mut Stats, input: &str, output: &str, env: &[(&str, &str)], cwd: Option<&str>, what: &str| -> Option<Vec<u8>> {
            let mut a = base.0.clone();
            a.extend(sv(&["-i", input, "-o", output]));
            let r = run_cli_env(ctx, &a, None, &CliLimits::default(), env, cwd);
            if r.timed_out && !r.cpu_exceeded && !r.stalled {
                st.inconclusive(format!("CLI watchdog: {}", r.describe()));
                return None;
            }
            if !r.ok() {
                st.violate("cli.env_paths.exit", format!("[{}] {} :: {}", what, a.join(" "), r.describe()), Json::obj().set("argv", Json::s(a.join(" "))).set("variant", Json::s(what)).set("records", recs_json(&recs)));
                return None;
            }
            let full = match cwd {
                Some(d) if !output.starts_with('/') => format!("{}/{}{}", d, output, base.1),
                _ => format!("{}{}", output, base.1),
            };
            let d = std::fs::read(&full).unwrap_or_default();
            Some(if base.2 { d } else { sorted_lines(&d).join(&b"\n"[..]) })
        };
        let reference = match run(st, &abs_in, &sc.path("ref.out"), &[], None, "baseline (absolute paths)") {
            Some(d) => d,
            None => return,
        };
        let dir = sc.dir.to_string_lossy().into_owned();
        let variants: Vec<(&str, String, String, Vec<(&str, &str)>, Option<&str>)> = vec![
            ("RAYON_NUM_THREADS=1", abs_in.clone(), sc.path("v1.out"), vec![("RAYON_NUM_THREADS", "1")], None),
            ("RAYON_NUM_THREADS=5", abs_in.clone(), sc.path("v2.out"), vec![("RAYON_NUM_THREADS", "5")], None),
            ("relative paths, cwd = scratch dir", "plain.fa".to_string(), "rel.out".to_string(), vec![], Some(dir.as_str())),
            ("./ prefixed relative paths", "./plain.fa".to_string(), "./rel2.out".to_string(), vec![], Some(dir.as_str())),
            ("directory and file names with spaces, dots and non-ASCII characters", weird_in.clone(), format!("{}/out put.v2.res", weird), vec![], None),
            ("LC_ALL=de_DE.UTF-8 LANG=tr_TR.UTF-8", abs_in.clone(), sc.path("v5.out"), vec![("LC_ALL", "de_DE.UTF-8"), ("LANG", "tr_TR.UTF-8"), ("LC_NUMERIC", "de_DE.UTF-8")], None),
            ("cwd = / (absolute paths)", abs_in.clone(), sc.path("v6.out"), vec![], Some("/")),
        ];
        // one visible CPU with the automatic thread count (-t 0 is the default): must still produce the result
        {
            let out1 = sc.path("onecpu.out");
            let r = with_cli_extra(CliExtra { one_cpu: true, ..Default::default() }, || run(st, &abs_in, &out1, &[], None, "one visible CPU, automatic thread count"));
            match r {
                None => return,
                Some(d) => {
                    if d != reference {
                        st.violate(
                            "cli.env_paths.changes_result:one_cpu",
                            format!("with a single visible CPU the result differs from the baseline ({} vs {} bytes)", d.len(), reference.len()),
                            Json::obj().set("subcommand", Json::s(base.0.join(" "))).set("variant", Json::s("one visible CPU")).set("records", recs_json(&recs)),
                        );
                        return;
                    }
                }
            }
        }
        // stdin flavours for `comp oligo -i -`: a pipe, a regular file positioned after a junk prefix, a socket
        if which <= 1 {
            let mut with_junk = b"this is not part of the input\n>junk\nTTTTTTTT\n".to_vec();
            let off = with_junk.len() as u64;
            with_junk.extend_from_slice(&fasta);
            let junk_path = sc.write("prefixed.txt", &with_junk);
            let flavours: Vec<(&str, CliExtra, Option<&[u8]>)> = vec![
                ("stdin = pipe", CliExtra::default(), Some(&fasta[..])),
                ("stdin = regular file already positioned after a prefix", CliExtra { stdin_file_at_offset: Some((junk_path.clone(), off)), ..Default::default() }, None),
                ("stdin = unix socket", CliExtra { stdin_socket: Some(fasta.clone()), ..Default::default() }, None),
            ];
            // the batch writer is used for stdin: compare with the same command reading the file
            for (j, (what, extra, data)) in flavours.into_iter().enumerate() {
                let o = sc.path(&format!("stdin{}.out", j));
                let mut a = base.0.clone();
                a.extend(sv(&["-i", "-", "-o", &o]));
                let r = with_cli_extra(extra, || run_cli_env(ctx, &a, data, &CliLimits::default(), &[], None));
                if r.timed_out && !r.cpu_exceeded && !r.stalled {
                    st.inconclusive(format!("CLI watchdog: {}", r.describe()));
                    return;
                }
                let d = std::fs::read(&o).unwrap_or_default();
                if !r.ok() || d != reference {
                    st.violate(
                        "cli.env_paths.stdin_flavour",
                        format!("[{}] {} :: output {} bytes vs {} from the file input", what, r.describe(), d.len(), reference.len()),
                        Json::obj().set("subcommand", Json::s(base.0.join(" "))).set("variant", Json::s(what)).set("records", recs_json(&recs)),
                    );
                    return;
                }
            }
        }
        for (what, input, output, env, cwd) in &variants {
            match run(st, input, output, env, *cwd, what) {
                None => return,
                Some(d) => {
                    if d != reference {
                        st.violate(
                            "cli.env_paths.changes_result",
                            format!("[{}] gives a different result than the baseline invocation ({} vs {} bytes)", what, d.len(), reference.len()),
                            Json::obj().set("subcommand", Json::s(base.0.join(" "))).set("variant", Json::s(*what)).set("records", recs_json(&recs)),
                        );
                        return;
                    }
                }
            }
        }
        if idx % 3 == 0 {
            st.sample(Json::obj().set("subcommand", Json::s(base.0.join(" "))).set("variants", Json::u(variants.len())).set("records", Json::u(recs.len())));
        }
    })
}

/// out-of-range values must be refused with a diagnostic and without producing output
pub fn refusals(ctx: &Ctx) -> Stats {
    let mut st = Stats::new();
    let mut rng = Rng::keyed(ctx.seed, "c15.refusals", 0);
    let recs = gen_records(&mut rng, 5, 7, Some(20), 100, 10);
    let sc = Scratch::new(ctx, "c15r");
    let inp = sc.write("in.fa", &ser::to_fasta(&recs, &SerOpts::plain()));
    let mut cases: Vec<(String, Vec<String>, bool)> = Vec::new(); // (what, args-without-output, output is dir)
    for k in ["2", "8", "0"] {
        cases.push((format!("oligo -k {}", k), sv(&["comp", "oligo", "-i", &inp, "-k", k]), false));
        cases.push((format!("cgr -k {}", k), sv(&["comp", "cgr", "-i", &inp, "-k", k]), false));
    }
    for k in ["6", "32", "0"] {
        cases.push((format!("cov -k {}", k), sv(&["cov", "-i", &inp, "-k", k]), true));
    }
    for k in ["9", "32", "64"] {
        cases.push((format!("ctr -k {}", k), sv(&["ctr", "-i", &inp, "-k", k]), true));
    }
    for m in ["6", "29", "31"] {
        cases.push((format!("min -m {}", m), sv(&["min", "-i", &inp, "-m", m]), false));
    }
    for (m, w) in [(10usize, 10usize), (10, 9), (10, 1), (7, 7), (28, 5)] {
        cases.push((format!("min -m {} -w {}", m, w), sv(&["min", "-i", &inp, "-m", &m.to_string(), "-w", &w.to_string()]), false));
    }
    cases.push(("cov -s 4".into(), sv(&["cov", "-i", &inp, "-k", "9", "-s", "4"]), true));
    cases.push(("cov -c 4".into(), sv(&["cov", "-i", &inp, "-k", "9", "-c", "4"]), true));
    for mem in ["5", "129", "0"] {
        cases.push((format!("cov -m {}", mem), sv(&["cov", "-i", &inp, "-k", "9", "-m", mem]), true));
        cases.push((format!("ctr -m {}", mem), sv(&["ctr", "-i", &inp, "-k", "12", "-m", mem]), true));
    }
    cases.push(("cgr -c without -k".into(), sv(&["comp", "cgr", "-i", &inp, "-c"]), false));
    cases.push(("oligo -p xml".into(), sv(&["comp", "oligo", "-i", &inp, "-p", "xml"]), false));
    for (i, (what, args, _is_dir)) in cases.iter().enumerate() {
        let out = sc.path(&format!("refused-{}", i));
        let mut a = args.clone();
        a.push("-o".into());
        a.push(out.clone());
        st.case(true, mix(i as u64) ^ hash_bytes(what.as_bytes()));
        let case = || Json::obj().set("argv", Json::s(a.join(" "))).set("expect", Json::s("refusal with a diagnostic, no output"));
        let r = match go(ctx, &mut st, &a, None) {
            Some(r) => r,
            None => continue,
        };
        let diagnostic = !r.stderr.trim().is_empty();
        let refused = r.code != Some(0) || diagnostic;
        let produced = std::path::Path::new(&out).exists();
        if produced {
            st.violate(&format!("cli.refusal.output_produced:{}", what.split(' ').next().unwrap_or("")), format!("[{}] out-of-range value produced output at the -o path ({})", what, r.describe()), case());
        } else if !refused {
            st.violate(&format!("cli.refusal.silent:{}", what.split(' ').next().unwrap_or("")), format!("[{}] neither a non-zero exit nor a diagnostic", what), case());
        } else if r.stderr.contains("panicked at") || r.signal.is_some() {
            st.violate(&format!("cli.refusal.panic:{}", what.split(' ').next().unwrap_or("")), format!("[{}] refused by crashing: {}", what, r.describe()), case());
        }
        if i % 7 == 0 {
            st.sample(Json::obj().set("argv", Json::s(a.join(" "))).set("exit", r.code.map_or(Json::Null, |c| Json::Int(c as i128))).set("stderr", Json::s(truncate(r.stderr.trim(), 160))));
        }
    }
    // and the in-range neighbours must be accepted (otherwise "refuses everything" would pass)
    let accept: Vec<(String, Vec<String>)> = vec![
        ("oligo -k 3".into(), sv(&["comp", "oligo", "-i", &inp, "-k", "3"])),
        ("oligo -k 7".into(), sv(&["comp", "oligo", "-i", &inp, "-k", "7"])),
        ("cgr -k 3".into(), sv(&["comp", "cgr", "-i", &inp, "-k", "3"])),
        ("cov -k 7 -s 5 -c 5 -m 6".into(), sv(&["cov", "-i", &inp, "-k", "7", "-s", "5", "-c", "5", "-m", "6"])),
        ("cov -k 31 -m 128".into(), sv(&["cov", "-i", &inp, "-k", "31", "-m", "128"])),
        ("ctr -k 10".into(), sv(&["ctr", "-i", &inp, "-k", "10", "-m", "6"])),
        ("ctr -k 31".into(), sv(&["ctr", "-i", &inp, "-k", "31", "-m", "128"])),
        ("min -m 7 -w 8".into(), sv(&["min", "-i", &inp, "-m", "7", "-w", "8"])),
        ("min -m 28 -w 29".into(), sv(&["min", "-i", &inp, "-m", "28", "-w", "29"])),
        ("min -m 10 -w 0".into(), sv(&["min", "-i", &inp, "-m", "10", "-w", "0"])),
    ];
    for (i, (what, args)) in accept.iter().enumerate() {
        let out = sc.path(&format!("accepted-{}", i));
        let mut a = args.clone();
        a.push("-o".into());
        a.push(out.clone());
        st.case(true, mix(1000 + i as u64) ^ hash_bytes(what.as_bytes()));
        let r = match go(ctx, &mut st, &a, None) {
            Some(r) => r,
            None => continue,
        };
        if !r.ok() || !std::path::Path::new(&out).exists() {
            st.violate(
                &format!("cli.accept.refused:{}", what.split(' ').next().unwrap_or("")),
                format!("[{}] in-range value refused or no output: {}", what, r.describe()),
                Json::obj().set("argv", Json::s(a.join(" "))),
            );
        }
    }
    st
}
