//! C07 — k-mer counting is exact and independent of threads, chunking and partitioning.
//!
//! Final-state monitor (kmers.counts == reference map, no temp file left) plus history monitors over
//! the hook log and the temp files listed between count() and merge(): exactly-once record take,
//! per-chunk conservation (which partition file a k-mer lands in is not judged).

use crate::common::*;
use crate::sched::{next_prefix, Controller, Event, Mode, Policy, RunTrace, NONE};
use crate::util::*;
use counter::CountComputer;
use refmodel::gen::{gen_records, gen_seq, Rec, SeqClass};
use refmodel::json::Json;
use refmodel::model;
use refmodel::rng::{hash_bytes, mix, Rng};
use refmodel::ser::{self, SerOpts};
use std::collections::{BTreeMap, HashMap, HashSet};
use std::sync::Arc;

#[derive(Clone, Debug)]
pub struct CtrCfg {
    pub k: usize,
    pub threads: usize,
    pub mem_gb: f64,
    pub acgt: bool,
}

impl CtrCfg {
    pub fn json(&self) -> Json {
        Json::obj()
            .set("k", Json::u(self.k))
            .set("threads", Json::u(self.threads))
            .set("memory_ceiling_gb", Json::Num(self.mem_gb))
            .set("base_limit_per_chunk", Json::Int((1_000_000_000f64 * self.mem_gb / 8.0) as i128))
            .set("acgt", Json::Bool(self.acgt))
    }
}

/// memory ceiling (GB) such that the per-chunk base limit is `limit_bases`
pub fn mem_for_limit(limit_bases: u64) -> f64 {
    (limit_bases as f64 + 0.5) * 8.0 / 1_000_000_000f64
}

pub struct TempFile {
    pub part: u64,
    pub chunk: u64,
    pub entries: Vec<(u64, u64)>,
}

pub struct CtrRun {
    pub result: Result<(), String>,
    pub temps: Vec<TempFile>,
    pub temp_parse_error: Option<String>,
    pub counts_raw: Option<Vec<u8>>,
    pub leftover: Vec<String>,
    pub trace: Option<RunTrace>,
}

fn parse_temp_name(name: &str) -> Option<(u64, u64)> {
    let rest = name.strip_prefix("temp_kmers.part_")?;
    let (p, c) = rest.split_once("_chunk_")?;
    Some((p.parse().ok()?, c.parse().ok()?))
}

fn parse_kv(data: &[u8]) -> Result<Vec<(String, u64)>, String> {
    let mut out = Vec::new();
    for l in lines(data) {
        let s = std::str::from_utf8(l).map_err(|_| "non-UTF8 line".to_string())?;
        let (k, v) = s.split_once('\t').ok_or_else(|| format!("line without tab: {:?}", s))?;
        let v: u64 = v.trim().parse().map_err(|_| format!("bad count in {:?}", s))?;
        out.push((k.to_string(), v));
    }
    Ok(out)
}

thread_local! {
    /// set by history stages: the next run_counter call of this thread ends with merge(false) — the documented way of
    /// keeping the chunk files next to the merged table
    pub static MERGE_KEEPS_CHUNKS: std::cell::Cell<bool> = const { std::cell::Cell::new(false) };
    /// set by history stages: leave the output directory exactly as the earlier runs of the history left it (no
    /// removal / planting of a synthetic stale table before the run)
    pub static KEEP_DIRECTORY_STATE: std::cell::Cell<bool> = const { std::cell::Cell::new(false) };
}

pub fn run_counter(in_path: &str, out_dir: &str, cfg: &CtrCfg, ctl: Option<&Arc<Controller>>) -> CtrRun {
    let _ = std::fs::create_dir_all(out_dir);
    // files already present before the run (other runs of a history, planted stale files) are not this run's leftovers
    let pre_existing: Option<HashSet<String>> = std::fs::read_dir(out_dir).ok().map(|rd| rd.flatten().map(|e| e.file_name().to_string_lossy().into_owned()).collect());
    // every other run finds a stale (longer, different) counts table from "an earlier run" in the directory
    if !KEEP_DIRECTORY_STATE.with(|c| c.get()) {
        super::oligo::prepare_output(&format!("{}/kmers.counts", out_dir));
    }
    if let Some(c) = ctl {
        c.install();
    }
    let mut temps = Vec::new();
    let mut temp_parse_error = None;
    let result = guarded(|| {
        let mut ctr = CountComputer::new(in_path.to_string(), out_dir.to_string(), cfg.k);
        ctr.set_threads(cfg.threads);
        ctr.set_max_memory(cfg.mem_gb);
        ctr.set_acgt_output(cfg.acgt);
        ctr.count();
        // observation point between count() and merge(): the temp files of every chunk
        if let Ok(rd) = std::fs::read_dir(out_dir) {
            for e in rd.flatten() {
                let name = e.file_name().to_string_lossy().into_owned();
                if let Some((part, chunk)) = parse_temp_name(&name) {
                    match std::fs::read(e.path()).map_err(|e| e.to_string()).and_then(|d| parse_kv(&d)) {
                        Ok(kv) => {
                            let mut entries = Vec::new();
                            for (k, v) in kv {
                                match k.parse::<u64>() {
                                    Ok(k) => entries.push((k, v)),
                                    Err(_) => temp_parse_error = Some(format!("non-numeric key {:?} in {}", k, name)),
                                }
                            }
                            temps.push(TempFile { part, chunk, entries });
                        }
                        Err(e) => temp_parse_error = Some(format!("{}: {}", name, e)),
                    }
                }
            }
        }
        ctr.merge(!MERGE_KEEPS_CHUNKS.with(|c| c.get()));
    });
    let trace = ctl.map(|c| c.finish());
    let counts_raw = std::fs::read(format!("{}/kmers.counts", out_dir)).ok();
    let mut leftover = Vec::new();
    if let Ok(rd) = std::fs::read_dir(out_dir) {
        for e in rd.flatten() {
            let name = e.file_name().to_string_lossy().into_owned();
            // whatever the temporary chunk files are called: after merge(delete) only result files may remain
            if name.starts_with("temp_kmers") || (pre_existing.is_some() && !pre_existing.as_ref().unwrap().contains(&name) && name != "kmers.counts" && name != "kmers.vectors") {
                leftover.push(name);
            }
        }
    }
    CtrRun { result, temps, temp_parse_error, counts_raw, leftover, trace }
}

pub fn ref_counts(recs: &[Rec], k: usize) -> BTreeMap<u64, u64> {
    let mut m = BTreeMap::new();
    for r in recs {
        for c in model::canonical_stream(&r.seq, k) {
            *m.entry(c).or_insert(0) += 1;
        }
    }
    m
}

/// final-state monitor
pub fn check_final(run: &CtrRun, recs: &[Rec], cfg: &CtrCfg) -> Result<(), (String, String)> {
    let reference = ref_counts(recs, cfg.k);
    let data = match &run.counts_raw {
        Some(d) => d,
        None => return Err(("ctr.no_counts_file".into(), "kmers.counts missing after merge".into())),
    };
    let kv = parse_kv(data).map_err(|e| ("ctr.unparseable".to_string(), e))?;
    let mut seen: HashMap<u64, u64> = HashMap::new();
    for (k, v) in kv {
        let code = if cfg.acgt {
            if k.len() != cfg.k {
                return Err(("ctr.acgt_text".into(), format!("ACGT key {:?} is not {} letters", k, cfg.k)));
            }
            match model::encode(k.as_bytes()) {
                Some(c) if k.bytes().all(|b| matches!(b, b'A' | b'C' | b'G' | b'T')) => c as u64,
                _ => return Err(("ctr.acgt_text".into(), format!("ACGT key {:?} is not text over ACGT", k))),
            }
        } else {
            k.parse::<u64>().map_err(|_| ("ctr.unparseable".to_string(), format!("non-numeric key {:?}", k)))?
        };
        if seen.insert(code, v).is_some() {
            return Err(("ctr.duplicate_key".into(), format!("k-mer {} ({}) appears on two lines of kmers.counts", code, model::decode(code, cfg.k))));
        }
    }
    for (k, v) in &reference {
        match seen.get(k) {
            None => return Err(("ctr.missing_key".into(), format!("canonical k-mer {} ({}) occurs {} times in the input but is absent", k, model::decode(*k, cfg.k), v))),
            Some(g) if g != v => {
                return Err((
                    if g < v { "ctr.count_low" } else { "ctr.count_high" }.into(),
                    format!("k-mer {} ({}): counted {} but occurs {} times", k, model::decode(*k, cfg.k), g, v),
                ))
            }
            _ => {}
        }
    }
    if seen.len() != reference.len() {
        let extra = seen.keys().find(|k| !reference.contains_key(k)).unwrap();
        return Err(("ctr.extra_key".into(), format!("k-mer {} ({}) is listed but does not occur (as canonical k-mer) in the input", extra, model::decode(*extra, cfg.k))));
    }
    if !run.leftover.is_empty() {
        return Err(("ctr.temp_left".into(), format!("{} temporary files survive merge(delete): {:?}", run.leftover.len(), &run.leftover[..run.leftover.len().min(3)])));
    }
    Ok(())
}

/// history monitors over the hook log + temp files (needs a trace)
pub fn check_history(run: &CtrRun, recs: &[Rec], cfg: &CtrCfg, events: &[Event]) -> Result<(u64, u64), (String, String)> {
    if let Some(e) = &run.temp_parse_error {
        return Err(("ctr.temp_unparseable".into(), e.clone()));
    }
    // exactly-once take
    let mut taken: HashMap<u64, u64> = HashMap::new(); // ordinal -> chunk
    for e in events.iter().filter(|e| e.site == "ctr.took" && e.args[0] != NONE) {
        if let Some(prev) = taken.insert(e.args[0], e.args[1]) {
            return Err(("ctr.record_taken_twice".into(), format!("record {} taken in chunk {} and again in chunk {}", e.args[0], prev, e.args[1])));
        }
    }
    for n in 0..recs.len() as u64 {
        if !taken.contains_key(&n) {
            return Err(("ctr.record_never_taken".into(), format!("record {} was never handed to a worker", n)));
        }
    }
    if taken.len() != recs.len() {
        return Err(("ctr.phantom_record".into(), format!("{} ordinals taken, input has {} records", taken.len(), recs.len())));
    }
    if run.temps.is_empty() {
        // no file named temp_kmers.part_P_chunk_C was observable between count() and merge(): the names of
        // temporary files are not part of the property, so the file-based history monitors do not apply
        return Ok((0, 0));
    }
    let n_parts = run.temps.iter().map(|t| t.part + 1).max().unwrap_or(0);
    let n_chunks = run.temps.iter().map(|t| t.chunk + 1).max().unwrap_or(0);
    // (which partition file a k-mer lands in is an implementation detail - `kmer mod n_parts`, a hash, ... -
    // and is not judged; what must hold is conservation per chunk, judged on the union of its files)
    // per-chunk conservation: merged partitions of chunk c == reference counts of the records taken in c
    for c in 0..n_chunks {
        let mut got: BTreeMap<u64, u64> = BTreeMap::new();
        let mut files = 0;
        for t in run.temps.iter().filter(|t| t.chunk == c) {
            files += 1;
            for &(k, v) in &t.entries {
                *got.entry(k).or_insert(0) += v;
            }
        }
        if files as u64 != n_parts {
            return Err(("ctr.chunk_files".into(), format!("chunk {} has {} partition files, expected {}", c, files, n_parts)));
        }
        let chunk_recs: Vec<Rec> = recs.iter().enumerate().filter(|(i, _)| taken.get(&(*i as u64)) == Some(&c)).map(|(_, r)| r.clone()).collect();
        let exp = ref_counts(&chunk_recs, cfg.k);
        if got != exp {
            let gs: u64 = got.values().sum();
            let es: u64 = exp.values().sum();
            return Err((
                "ctr.chunk_conservation".into(),
                format!("chunk {}: partition files hold {} k-mer occurrences ({} keys), the {} records taken in that chunk have {} ({} keys)", c, gs, got.len(), chunk_recs.len(), es, exp.len()),
            ));
        }
    }
    // records taken in a chunk index beyond the files written (e.g. a last chunk that was dropped)
    if let Some((&n, &c)) = taken.iter().find(|(_, &c)| c >= n_chunks) {
        if !model::windows(&recs[n as usize].seq, cfg.k).is_empty() || n_chunks == 0 && !recs.is_empty() {
            return Err(("ctr.chunk_lost".into(), format!("record {} was taken in chunk {} but only {} chunks were written", n, c, n_chunks)));
        }
    }
    Ok((n_chunks, n_parts))
}

fn write_fa(sc: &Scratch, recs: &[Rec]) -> String {
    sc.write("in.fa", &ser::to_fasta(recs, &SerOpts::plain()))
}

fn total_bases(recs: &[Rec]) -> u64 {
    recs.iter().map(|r| r.seq.len() as u64).sum()
}

fn judge(st: &mut Stats, run: &CtrRun, recs: &[Rec], cfg: &CtrCfg, tag: &str, shapes: &mut HashSet<(u64, u64)>, extra: Json) -> bool {
    let case = || Json::obj().set("cfg", cfg.json()).set("records", super::oligo::recs_json(recs)).set("mode", Json::s(tag)).set("detail", extra.clone());
    if let Err(p) = &run.result {
        st.violate(&panic_sig(p), format!("count()/merge() panicked: {}", p), case());
        return false;
    }
    if let Some(tr) = &run.trace {
        if tr.aborted {
            st.inconclusive(format!("{}: controller watchdog fired", tag));
            return false;
        }
        if !recs.is_empty() && tr.events.iter().all(|e| e.site != "ctr.took") {
            st.inconclusive(format!("{}: hook ctr.took never reached", tag));
        } else {
            match check_history(run, recs, cfg, &tr.events) {
                Err((sig, msg)) => {
                    st.violate(&sig, msg, case());
                    return false;
                }
                Ok(shape) => {
                    shapes.insert(shape);
                }
            }
        }
    }
    if let Err((sig, msg)) = check_final(run, recs, cfg) {
        st.violate(&sig, msg, case());
        return false;
    }
    true
}

fn shapes_json(shapes: &HashSet<(u64, u64)>) -> Json {
    let mut v: Vec<&(u64, u64)> = shapes.iter().collect();
    v.sort();
    Json::Arr(v.iter().take(60).map(|(c, p)| Json::s(format!("{}x{}", c, p))).collect())
}

/// controlled schedules, exhaustive DFS for tiny configurations x ceiling positions
pub fn sched_exhaustive(ctx: &Ctx) -> Stats {
    let mut st = Stats::new();
    let configs: &[(usize, usize)] = if ctx.tier == Tier::Quick { &[(2, 4), (3, 5)] } else { &[(2, 4), (3, 5), (3, 6), (2, 6), (4, 5)] };
    let mut shapes = HashSet::new();
    let mut summary = Json::arr();
    for (ci, &(threads, nrec)) in configs.iter().enumerate() {
        let mut rng = Rng::keyed(ctx.seed, "c07.sched_exhaustive", ci as u64);
        let k = rng.usize(2, 5);
        let recs: Vec<Rec> = (0..nrec)
            .map(|i| {
                let class = *rng.pick(&[SeqClass::Uniform, SeqClass::TwoLetter, SeqClass::HomoPolymer, SeqClass::IsolatedN]);
                let len = rng.usize(k, k + 12);
                Rec { id: format!("r{}", i), desc: None, seq: gen_seq(&mut rng, class, len, true) }
            })
            .collect();
        let sc = Scratch::new(ctx, "c07x");
        let inp = write_fa(&sc, &recs);
        // ceiling crossing after each prefix of the records (and never)
        let mut limits: Vec<u64> = vec![0];
        let mut acc = 0;
        for r in &recs {
            acc += r.seq.len() as u64;
            limits.push(acc);
        }
        limits.push(acc * 10);
        let lim_n = limits.len();
        let mut runs = 0u64;
        let mut complete = true;
        for (li, &limit) in limits.iter().enumerate() {
            if ctx.tier == Tier::Quick && li % 2 == 1 && li + 1 != lim_n {
                continue;
            }
            let cfg = CtrCfg { k, threads, mem_gb: mem_for_limit(limit), acgt: false };
            let mut prefix: Vec<u32> = vec![];
            loop {
                if ctx.expired() || runs > 100_000 {
                    st.truncated = true;
                    complete = false;
                    break;
                }
                let out = sc.subdir(&format!("o{}", runs % 4));
                let _ = std::fs::remove_dir_all(&out);
                let ctl = Controller::new(Mode::Controlled(Policy::First), threads, "ctr.took", "ctr.exit", prefix.clone());
                let run = run_counter(&inp, &out, &cfg, Some(&ctl));
                runs += 1;
                let choices = run.trace.as_ref().map(|t| t.choices.clone()).unwrap_or_default();
                let sched = Json::Arr(choices.iter().map(|c| Json::Int(c.2 as i128)).collect());
                st.case(choices.len() >= 2, hash_bytes(format!("{}|{}|{:?}", ci, limit, choices).as_bytes()));
                let ok = judge(&mut st, &run, &recs, &cfg, "exhaustive", &mut shapes, Json::obj().set("published_ordinals", sched));
                match next_prefix(&choices) {
                    Some(p) if ok || true => prefix = p,
                    _ => break,
                }
            }
        }
        summary.push(
            Json::obj()
                .set("threads", Json::u(threads))
                .set("records", Json::u(nrec))
                .set("ceiling_positions", Json::u(lim_n))
                .set("schedules_executed", Json::Int(runs as i128))
                .set("all_schedules_enumerated", Json::Bool(complete)),
        );
        st.sample(Json::obj().set("threads", Json::u(threads)).set("k", Json::u(k)).set("records", super::oligo::recs_json(&recs)).set("schedules", Json::Int(runs as i128)));
    }
    st.set_extra("exhaustive", Json::Bool(!st.truncated));
    st.set_extra("configurations", summary);
    st.set_extra("chunks_x_partitions_seen", shapes_json(&shapes));
    st
}

fn random_case(rng: &mut Rng, max_recs: usize) -> (usize, Vec<Rec>) {
    let k = match rng.below(4) {
        0 => rng.usize(1, 6),
        1 => rng.usize(28, 31),
        _ => rng.usize(1, 31),
    };
    let nrec = rng.usize(0, max_recs);
    let mut recs = gen_records(rng, nrec, k, None, 300, 0);
    if rng.chance(1, 3) {
        // highly repetitive: every worker hits the same few keys
        for r in recs.iter_mut() {
            let c = *rng.pick(&[SeqClass::HomoPolymer, SeqClass::Period2, SeqClass::Tandem]);
            let len = r.seq.len().max(k + 20);
            r.seq = gen_seq(rng, c, len, true);
        }
    }
    (k, recs)
}

/// random controlled schedules (random / PCT) with up to 16 threads and many chunks
pub fn sched_random(ctx: &Ctx) -> Stats {
    let mut st = Stats::new();
    let n = ctx.n(60, 3000);
    let mut shapes = HashSet::new();
    for i in 0..n {
        if ctx.expired() {
            st.truncated = true;
            break;
        }
        let mut rng = Rng::keyed(ctx.seed, "c07.sched_random", i);
        let (k, recs) = random_case(&mut rng, 60);
        let threads = rng.usize(2, 16);
        let total = total_bases(&recs).max(1);
        let limit = total / rng.range(1, 40).max(1);
        let cfg = CtrCfg { k, threads, mem_gb: mem_for_limit(limit), acgt: rng.chance(1, 4) };
        let sc = Scratch::new(ctx, "c07r");
        let inp = write_fa(&sc, &recs);
        let out = sc.subdir("out");
        let mode = if i % 2 == 0 { Mode::Controlled(Policy::Random(rng.next_u64())) } else { Mode::Controlled(Policy::Pct { seed: rng.next_u64(), change_every: rng.range(2, 30) as u32 }) };
        let ctl = Controller::new(mode, threads, "ctr.took", "ctr.exit", vec![]);
        let run = run_counter(&inp, &out, &cfg, Some(&ctl));
        st.case(recs.len() >= 2, mix(i) ^ hash_bytes(&std::fs::read(&inp).unwrap_or_default()));
        st.class(&format!("threads={}", threads));
        judge(&mut st, &run, &recs, &cfg, "random", &mut shapes, Json::Null);
        if i % 23 == 0 {
            st.sample(Json::obj().set("cfg", cfg.json()).set("records", Json::u(recs.len())).set("total_bases", Json::Int(total as i128)));
        }
    }
    st.set_extra("chunks_x_partitions_seen", shapes_json(&shapes));
    st
}

/// configuration sweep, free-running, every event logged (exactly-once + per-chunk conservation)
pub fn configs(ctx: &Ctx) -> Stats {
    let mut st = Stats::new();
    let n = ctx.n(250, 10_000);
    let mut shapes = HashSet::new();
    for i in 0..n {
        if ctx.expired() {
            st.truncated = true;
            break;
        }
        let mut rng = Rng::keyed(ctx.seed, "c07.configs", i);
        let (k, recs) = random_case(&mut rng, 80);
        let threads = rng.usize(1, 16);
        let total = total_bases(&recs).max(1);
        let limit = match rng.below(4) {
            0 => total * 4,
            1 => total / 2,
            _ => total / rng.range(1, 40).max(1),
        };
        let cfg = CtrCfg { k, threads, mem_gb: mem_for_limit(limit), acgt: rng.chance(1, 3) };
        let sc = Scratch::new(ctx, "c07c");
        // the counter reads through the same reader as everything else: now and then the records arrive as
        // wrapped FASTA, FASTQ or multi-member gzip
        let inp = if i % 5 == 4 {
            use super::oligo::{write_input, Container};
            let fastq_ok = recs.iter().all(|r| !r.seq.is_empty()) && !recs.is_empty();
            let cont = if fastq_ok && rng.chance(1, 2) { Container::Fastq } else { Container::FastaWrapped(rng.usize(1, 70)) };
            let gz = if rng.chance(1, 2) { Some(refmodel::ser::GzLayout::Multi(rng.usize(2, 5))) } else { None };
            st.class("container-variant");
            write_input(&sc, "in", &recs, &cont, gz.as_ref(), &mut rng)
        } else {
            write_fa(&sc, &recs)
        };
        let out = sc.subdir("out");
        let mode = if i % 3 == 0 { Mode::Perturbed { seed: rng.next_u64(), max_us: 100 } } else { Mode::Log };
        let ctl = Controller::new(mode, threads, "ctr.took", "ctr.exit", vec![]);
        let run = run_counter(&inp, &out, &cfg, Some(&ctl));
        let windows: usize = recs.iter().map(|r| model::windows(&r.seq, k).len()).sum();
        st.case(windows > 0, mix(i) ^ hash_bytes(&std::fs::read(&inp).unwrap_or_default()));
        st.class(&format!("k={}", if k <= 6 { "1..6" } else if k >= 28 { "28..31" } else { "7..27" }));
        if cfg.acgt {
            st.class("acgt-output");
        }
        judge(&mut st, &run, &recs, &cfg, "free", &mut shapes, Json::Null);
        if i % 41 == 0 {
            st.sample(Json::obj().set("cfg", cfg.json()).set("records", Json::u(recs.len())).set("valid_windows", Json::u(windows)));
        }
    }
    st.set_extra("chunks_x_partitions_seen", shapes_json(&shapes));
    st
}

/// deterministic lag for the counter: the worker that takes one chosen record is held for 300 ms at the `took` hook
/// while the others count thousands of records and cross several chunk boundaries
pub fn lag(ctx: &Ctx) -> Stats {
    let mut st = Stats::new();
    let n = ctx.n(4, 24);
    let mut shapes = HashSet::new();
    for i in 0..n {
        if ctx.expired() {
            st.truncated = true;
            break;
        }
        let mut rng = Rng::keyed(ctx.seed, "c07.lag", i);
        let k = rng.usize(4, 12);
        let nrec = rng.usize(3000, 6000);
        let recs: Vec<Rec> = (0..nrec).map(|j| Rec { id: format!("g{}", j), desc: None, seq: (0..(20 + j % 40)).map(|_| *rng.pick(b"ACGT")).collect() }).collect();
        let total = total_bases(&recs).max(1);
        // three to eight chunks
        let limit = total / rng.range(3, 8);
        let cfg = CtrCfg { k, threads: [2usize, 3, 8, 4][((i / 2) % 4) as usize], mem_gb: mem_for_limit(limit), acgt: false };
        let sc = Scratch::new(ctx, "c07g");
        let inp = write_fa(&sc, &recs);
        let out = sc.subdir("out");
        let victim = [0u64, rng.range(2, 200), 1, (nrec / 3) as u64][(i % 4) as usize];
        let ctl = Controller::new(Mode::Straggle { record: victim, hold_ms: 300 }, cfg.threads, "ctr.took", "ctr.exit", vec![]);
        let run = run_counter(&inp, &out, &cfg, Some(&ctl));
        st.case(true, mix(i) ^ hash_bytes(&std::fs::read(&inp).unwrap_or_default()));
        st.class(&format!("threads={} held record {}", cfg.threads, if victim < 2 { victim.to_string() } else { "later".into() }));
        judge(&mut st, &run, &recs, &cfg, "lag", &mut shapes, Json::Null);
        let _ = std::fs::remove_dir_all(&out);
    }
    st.set_extra("chunks_x_partitions_seen", shapes_json(&shapes));
    st
}

/// many partitions under a small descriptor limit: the stage process lowers RLIMIT_NOFILE to 96 and counts inputs whose
/// memory ceiling asks for 130-220 partitions with 2-6 workers — "independent of partitioning" includes partition counts
/// above what the process may keep open at once (the spill writes one partition file at a time per worker)
pub fn fdlimit(ctx: &Ctx) -> Stats {
    let mut st = Stats::new();
    let lim = libc::rlimit { rlim_cur: 96, rlim_max: 96 };
    let rc = unsafe { libc::setrlimit(libc::RLIMIT_NOFILE, &lim) };
    if rc != 0 {
        st.inconclusive("cannot lower RLIMIT_NOFILE".into());
        return st;
    }
    let n = ctx.n(6, 40);
    let mut shapes = HashSet::new();
    for i in 0..n {
        if ctx.expired() {
            st.truncated = true;
            break;
        }
        let mut rng = Rng::keyed(ctx.seed, "c07.fdlimit", i);
        let k = rng.usize(5, 15);
        let nrec = rng.usize(30, 50);
        let recs: Vec<Rec> = (0..nrec).map(|j| Rec { id: format!("f{}", j), desc: None, seq: (0..rng.usize(60, 140)).map(|_| *rng.pick(b"ACGT")).collect() }).collect();
        let total = total_bases(&recs).max(1);
        let parts = rng.usize(130, 220) as f64;
        // n_parts = ceil(8 * data_gb / (2 * ceiling))
        let data_gb = total as f64 / (1u64 << 30) as f64;
        let mem_gb = 8.0 * data_gb / (2.0 * (parts - 0.5));
        let cfg = CtrCfg { k, threads: rng.usize(2, 6), mem_gb, acgt: false };
        let sc = Scratch::new(ctx, "c07f");
        let inp = write_fa(&sc, &recs);
        let out = sc.subdir("out");
        let case = Json::obj().set("cfg", cfg.json()).set("records", Json::u(recs.len())).set("partitions_requested", Json::Num(parts)).set("descriptor_limit", Json::u(96));
        note_current_case(ctx, &case);
        let ctl = Controller::new(Mode::Log, cfg.threads, "ctr.took", "ctr.exit", vec![]);
        let run = run_counter(&inp, &out, &cfg, Some(&ctl));
        let windows: usize = recs.iter().map(|r| model::windows(&r.seq, k).len()).sum();
        st.case(windows > 0, mix(i) ^ hash_bytes(&std::fs::read(&inp).unwrap_or_default()));
        judge(&mut st, &run, &recs, &cfg, "fdlimit", &mut shapes, Json::Null);
        let _ = std::fs::remove_dir_all(&out);
        if i % 3 == 0 {
            st.sample(case);
        }
    }
    st.set_extra("chunks_x_partitions_seen", shapes_json(&shapes));
    st.set_extra("rlimit_nofile", Json::u(96));
    st
}

/// contention stress: all workers update the same <= 4 keys, millions of updates, no sink installed
pub fn contention(ctx: &Ctx) -> Stats {
    let mut st = Stats::new();
    let reps = ctx.n(3, 20);
    for i in 0..reps {
        if ctx.expired() {
            st.truncated = true;
            break;
        }
        let mut rng = Rng::keyed(ctx.seed, "c07.contention", i);
        let k = rng.usize(3, 12);
        let unit: Vec<u8> = match i % 3 {
            0 => b"A".to_vec(),
            1 => b"AC".to_vec(),
            _ => b"ACGT".to_vec(),
        };
        let nrec = 64;
        let len = ctx.pick(8_000usize, 32_000usize);
        let recs: Vec<Rec> = (0..nrec)
            .map(|j| Rec { id: format!("r{}", j), desc: None, seq: (0..len).map(|p| unit[(p + j) % unit.len()]).collect() })
            .collect();
        let threads = 16;
        let total = total_bases(&recs);
        let cfg = CtrCfg { k, threads, mem_gb: mem_for_limit(if i % 2 == 0 { total * 2 } else { total / 3 }), acgt: false };
        let sc = Scratch::new(ctx, "c07s");
        let inp = write_fa(&sc, &recs);
        let out = sc.subdir("out");
        let run = run_counter(&inp, &out, &cfg, None);
        let reference = ref_counts(&recs[..1], k);
        let updates: u64 = (nrec * (len - k + 1)) as u64;
        st.case(true, mix(i) ^ mix(k as u64));
        st.add_extra_count("updates_total", updates as i128);
        st.set_extra("distinct_keys_per_run_max", Json::u(reference.len().max(st.extra.get("distinct_keys_per_run_max").and_then(|j| j.as_i()).unwrap_or(0) as usize)));
        let mut shapes = HashSet::new();
        judge(&mut st, &run, &recs, &cfg, "contention", &mut shapes, Json::obj().set("updates", Json::Int(updates as i128)).set("distinct_keys", Json::u(reference.len())));
        st.sample(Json::obj().set("cfg", cfg.json()).set("unit", Json::bytes(&unit)).set("records", Json::u(nrec)).set("bases_per_record", Json::u(len)).set("updates", Json::Int(updates as i128)).set("distinct_keys", Json::u(reference.len())));
    }
    st
}

/// the real binary: `kmertools ctr -i F -o D -k K [-a] [-t N]`
pub fn cli(ctx: &Ctx) -> Stats {
    let n = ctx.n(30, 800);
    par_cases(ctx, n, |idx, st| {
        let mut rng = Rng::keyed(ctx.seed, "c07.cli", idx);
        let k = rng.usize(10, 31);
        let nrec = rng.usize(1, 40);
        let recs = gen_records(&mut rng, nrec, k, None, 300, 0);
        let acgt = rng.chance(1, 2);
        let threads = rng.usize(0, 16);
        let sc = Scratch::new(ctx, "c07cli");
        let inp = write_fa(&sc, &recs);
        let out = sc.path("outdir");
        let mut args = sv(&["ctr", "-i", &inp, "-o", &out, "-k", &k.to_string(), "-t", &threads.to_string()]);
        if acgt {
            args.push("--acgt".into());
        }
        let res = run_cli(ctx, &args, None, &CliLimits::default());
        let case = || Json::obj().set("argv", Json::s(args.join(" "))).set("records", super::oligo::recs_json(&recs));
        let windows: usize = recs.iter().map(|r| model::windows(&r.seq, k).len()).sum();
        st.case(windows > 0, mix(idx) ^ hash_bytes(args.join(" ").as_bytes()));
        if res.timed_out && !res.cpu_exceeded && !res.stalled {
            st.inconclusive(format!("CLI watchdog: {}", res.describe()));
            return;
        }
        if !res.ok() {
            st.violate("cli.ctr.exit", format!("ctr failed: {}", res.describe()), case());
            return;
        }
        let mut leftover = Vec::new();
        if let Ok(rd) = std::fs::read_dir(&out) {
            for e in rd.flatten() {
                let name = e.file_name().to_string_lossy().into_owned();
                if name.starts_with("temp_kmers") {
                    leftover.push(name);
                }
            }
        }
        let run = CtrRun { result: Ok(()), temps: vec![], temp_parse_error: None, counts_raw: std::fs::read(format!("{}/kmers.counts", out)).ok(), leftover, trace: None };
        let cfg = CtrCfg { k, threads, mem_gb: 6.0, acgt };
        if let Err((sig, msg)) = check_final(&run, &recs, &cfg) {
            st.violate(&format!("cli.{}", sig), msg, case());
        } else if idx % 13 == 0 {
            st.sample(Json::obj().set("argv", Json::s(args.join(" "))).set("valid_windows", Json::u(windows)));
        }
    })
}

/// records whose length is exactly a power of two (2^16, 2^20) plus -1 .. k+1 (seams of any block-wise
/// processing of a record); two-letter periodic content, counts checked through the full count()+merge()
pub fn seams(ctx: &Ctx) -> Stats {
    let mut st = Stats::new();
    let blocks: &[usize] = if ctx.tier == Tier::Quick { &[1 << 16, 1 << 20] } else { &[1 << 16, 1 << 20, 1 << 21] };
    let mut i = 0u64;
    for &blk in blocks {
        for k in [3usize, 11, 21, 31] {
            let mut recs: Vec<Rec> = Vec::new();
            for delta in [-1isize, 0, 1, k as isize - 1, k as isize, k as isize + 1] {
                let len = (blk as isize + delta) as usize;
                let unit: &[u8] = if delta % 2 == 0 { b"AC" } else { b"AAG" };
                recs.push(Rec { id: format!("s{}", recs.len()), desc: None, seq: (0..len).map(|j| unit[j % unit.len()]).collect() });
            }
            i += 1;
            let cfg = CtrCfg { k, threads: 1 + (i as usize % 4), mem_gb: if i % 2 == 0 { 6.0 } else { mem_for_limit(blk as u64 * 2) }, acgt: false };
            let sc = Scratch::new(ctx, "c07seam");
            let inp = write_fa(&sc, &recs);
            let out = sc.subdir("out");
            let case = Json::obj().set("cfg", cfg.json()).set("record_lengths", Json::s(format!("2^{} + {{-1,0,1,k-1,k,k+1}}", blk.trailing_zeros())));
            note_current_case(ctx, &case);
            let run = run_counter(&inp, &out, &cfg, None);
            st.case(true, mix(i) ^ mix(blk as u64));
            st.class(&format!("block=2^{}", blk.trailing_zeros()));
            match &run.result {
                Err(p) => st.violate(&panic_sig(p), p.clone(), case.clone()),
                Ok(()) => {
                    if let Err((sig, msg)) = check_final(&run, &recs, &cfg) {
                        st.violate(&format!("{}:seam", sig), msg, case.clone());
                    }
                }
            }
            if i % 3 == 0 {
                st.sample(case);
            }
        }
    }
    st
}
