//! `ktmon core-eval` / `ktmon ref-eval`: evaluate a list of cases (JSON lines, --opt in=FILE) with the
//! repository's core (core-eval) or with the Rust reference model (ref-eval) and write one JSON line
//! per case to --opt out=FILE.  Used by the Python-binding monitor (C13) as its oracle and by the
//! cross-check between the Rust and the Python reference models.

use crate::common::*;
use composition::cgr::CgrComputer;
use composition::oligo::OligoComputer;
use kmer::kmer::KmerGenerator;
use kmer::minimiser::MinimiserGenerator;
use kmer::numeric_to_kmer;
use refmodel::json::Json;
use refmodel::model;
use std::collections::HashMap;

fn num_list(v: &[f64]) -> Json {
    Json::Arr(v.iter().map(|x| Json::Num(*x)).collect())
}

fn eval_core(case: &Json, oligo: &mut HashMap<(usize, bool), OligoComputer>) -> Json {
    let op = case.get("op").and_then(|o| o.as_str()).unwrap_or("");
    let seq = case.get("seq").and_then(|s| s.as_str()).unwrap_or("").as_bytes().to_vec();
    let geti = |k: &str| case.get(k).and_then(|v| v.as_i()).unwrap_or(0) as usize;
    let r = guarded(|| match op {
        "kmers" => Json::Arr(KmerGenerator::new(&seq, geti("k")).map(|(f, r)| Json::Arr(vec![Json::Int(f as i128), Json::Int(r as i128)])).collect()),
        "min" => Json::Arr(
            MinimiserGenerator::new(&seq, geti("w"), geti("m")).map(|(m, s, e)| Json::Arr(vec![Json::Int(m as i128), Json::u(s), Json::u(e)])).collect(),
        ),
        "oligo" => {
            let k = geti("k");
            let norm = case.get("norm").and_then(|b| b.as_bool()).unwrap_or(true);
            let c = oligo.entry((k, norm)).or_insert_with(|| {
                let mut c = OligoComputer::new("u.fa".into(), "u.out".into(), k);
                c.set_norm(norm);
                c
            });
            num_list(&c.verif_vectorise_one(&seq))
        }
        "header" => {
            let k = geti("k");
            Json::Arr(OligoComputer::new("u.fa".into(), "u.out".into(), k).verif_get_header().into_iter().map(Json::s).collect())
        }
        "cgr" => match CgrComputer::new("u".into(), "u".into(), geti("S")).verif_vectorise_one(&seq) {
            Ok(p) => Json::Arr(p.iter().map(|(x, y)| Json::Arr(vec![Json::Num(*x), Json::Num(*y)])).collect()),
            Err(e) => Json::obj().set("error", Json::s(e)),
        },
        "acgt" => Json::s(numeric_to_kmer(case.get("code").and_then(|v| v.as_i()).unwrap_or(0) as u64, geti("k"))),
        other => Json::obj().set("harness_error", Json::s(format!("unknown op {}", other))),
    });
    match r {
        Ok(j) => j,
        Err(p) => Json::obj().set("panic", Json::s(p)),
    }
}

fn eval_ref(case: &Json) -> Json {
    let op = case.get("op").and_then(|o| o.as_str()).unwrap_or("");
    let seq = case.get("seq").and_then(|s| s.as_str()).unwrap_or("").as_bytes().to_vec();
    let geti = |k: &str| case.get(k).and_then(|v| v.as_i()).unwrap_or(0) as usize;
    match op {
        "kmers" => Json::Arr(model::kmer_pairs(&seq, geti("k")).into_iter().map(|(f, r)| Json::Arr(vec![Json::Int(f as i128), Json::Int(r as i128)])).collect()),
        "min" => Json::Arr(model::minimiser_runs(&seq, geti("w"), geti("m")).into_iter().map(|(m, s, e)| Json::Arr(vec![Json::Int(m as i128), Json::u(s), Json::u(e)])).collect()),
        "oligo" => {
            let k = geti("k");
            let cols = model::canonical_list(k);
            let (c, t) = model::oligo_counts(&seq, k, &cols);
            Json::obj().set("counts", Json::Arr(c.iter().map(|x| Json::Int(*x as i128)).collect())).set("total", Json::Int(t as i128))
        }
        "header" => {
            let k = geti("k");
            Json::Arr(model::canonical_list(k).into_iter().map(|c| Json::s(model::decode(c, k))).collect())
        }
        "cgr" => match model::cgr_exact(&seq, geti("S") as u64, 60) {
            Some(p) => Json::Arr(
                p.iter()
                    .map(|(x, y)| {
                        let xn = x.normalised();
                        let yn = y.normalised();
                        Json::Arr(vec![Json::s(format!("{}/2^{}", xn.n, xn.d)), Json::s(format!("{}/2^{}", yn.n, yn.d))])
                    })
                    .collect(),
            ),
            None => Json::obj().set("error", Json::s("bad nucleotide")),
        },
        "acgt" => Json::s(model::decode(case.get("code").and_then(|v| v.as_i()).unwrap_or(0) as u64, geti("k"))),
        other => Json::obj().set("harness_error", Json::s(format!("unknown op {}", other))),
    }
}

fn run(ctx: &Ctx, reference: bool) -> Stats {
    let mut st = Stats::new();
    let inp = ctx.opt("in").expect("--opt in=FILE");
    let outp = ctx.opt("out").expect("--opt out=FILE");
    let text = std::fs::read_to_string(inp).expect("read cases");
    let mut out = String::new();
    let mut oligo = HashMap::new();
    for line in text.lines() {
        if line.trim().is_empty() {
            continue;
        }
        let j = match Json::parse(line) {
            Ok(c) => {
                if reference {
                    eval_ref(&c)
                } else {
                    eval_core(&c, &mut oligo)
                }
            }
            Err(e) => Json::obj().set("harness_error", Json::s(format!("bad case line: {}", e))),
        };
        st.case(true, st.evaluations + 1);
        out.push_str(&j.to_string());
        out.push('\n');
    }
    std::fs::write(outp, out).expect("write results");
    st
}

pub fn core_eval(ctx: &Ctx) -> Stats {
    run(ctx, false)
}

pub fn ref_eval(ctx: &Ctx) -> Stats {
    run(ctx, true)
}
