//! Shared plumbing for the monitor stages: context, statistics, parallel case runner,
//! panic capture, scratch directories, result file.

use refmodel::json::Json;
use std::any::Any;
use std::cell::RefCell;
use std::collections::{BTreeMap, HashSet};
use std::panic::{catch_unwind, AssertUnwindSafe};
use std::path::{Path, PathBuf};
use std::sync::atomic::{AtomicU64, Ordering};
use std::sync::Mutex;
use std::time::{Duration, Instant};

#[derive(Clone, Copy, Debug, PartialEq)]
pub enum Tier {
    Quick,
    Thorough,
}

#[derive(Clone, Debug)]
pub struct Ctx {
    pub stage: String,
    pub seed: u64,
    pub tier: Tier,
    pub work: PathBuf,
    pub replay_dir: PathBuf,
    pub cli: Option<PathBuf>,
    pub out: Option<PathBuf>,
    pub threads: usize,
    pub scale: f64,
    pub flavour: String,
    pub deadline: Instant,
    pub replay: Option<PathBuf>,
    pub extra: BTreeMap<String, String>,
}

impl Ctx {
    /// number of cases for this tier, scaled by --scale
    pub fn n(&self, quick: u64, thorough: u64) -> u64 {
        let base = if self.tier == Tier::Quick { quick } else { thorough };
        ((base as f64 * self.scale).ceil() as u64).max(1)
    }
    pub fn pick<T: Copy>(&self, quick: T, thorough: T) -> T {
        if self.tier == Tier::Quick {
            quick
        } else {
            thorough
        }
    }
    pub fn expired(&self) -> bool {
        Instant::now() >= self.deadline
    }
    pub fn cli_path(&self) -> &Path {
        self.cli.as_deref().expect("--cli required for this stage")
    }
    pub fn opt(&self, k: &str) -> Option<&str> {
        self.extra.get(k).map(|s| s.as_str())
    }
}

#[derive(Clone, Debug)]
pub struct Violation {
    /// monitor-computed signature (call site + input class) used to match KNOWN_FINDINGS
    pub sig: String,
    pub msg: String,
    pub replay: Json,
}

#[derive(Default)]
pub struct Stats {
    pub evaluations: u64,
    pub nontrivial: u64,
    pub distinct: HashSet<u64>,
    pub violations: Vec<Violation>,
    pub violations_total: u64,
    pub viol_by_sig: BTreeMap<String, u64>,
    pub inconclusive: u64,
    pub inconclusive_notes: Vec<String>,
    pub samples: Vec<Json>,
    pub classes: BTreeMap<String, u64>,
    pub extra: BTreeMap<String, Json>,
    pub truncated: bool,
}

pub const MAX_KEPT_VIOLATIONS_PER_SIG: u64 = 3;
pub const MAX_SAMPLES: usize = 6;

impl Stats {
    pub fn new() -> Self {
        Self::default()
    }
    /// Count one evaluated case.  `key` identifies the case for distinct counting; it is only
    /// recorded when the case is non-trivial by the stage's rule.
    pub fn case(&mut self, nontrivial: bool, key: u64) {
        self.evaluations += 1;
        if nontrivial {
            self.nontrivial += 1;
            self.distinct.insert(key);
        }
    }
    pub fn class(&mut self, name: &str) {
        *self.classes.entry(name.to_string()).or_insert(0) += 1;
    }
    pub fn class_n(&mut self, name: &str, n: u64) {
        *self.classes.entry(name.to_string()).or_insert(0) += n;
    }
    pub fn sample(&mut self, j: Json) {
        if self.samples.len() < MAX_SAMPLES {
            self.samples.push(j);
        }
    }
    pub fn want_sample(&self) -> bool {
        self.samples.len() < MAX_SAMPLES
    }
    pub fn violate(&mut self, sig: &str, msg: String, replay: Json) {
        // a full disk / exhausted scratch space is a failure of the environment the run happens in, never a verdict on
        // the code under test: such an observation is inconclusive
        if ["StorageFull", "No space left on device", "Os { code: 28", "os error 28"].iter().any(|m| msg.contains(m) || sig.contains(m)) {
            self.inconclusive(format!("environment: scratch space full while running [{}]: {}", sig, msg.chars().take(160).collect::<String>()));
            return;
        }
        self.violations_total += 1;
        let c = self.viol_by_sig.entry(sig.to_string()).or_insert(0);
        *c += 1;
        if *c <= MAX_KEPT_VIOLATIONS_PER_SIG {
            self.violations.push(Violation { sig: sig.to_string(), msg, replay });
        }
    }
    pub fn inconclusive(&mut self, note: String) {
        self.inconclusive += 1;
        if self.inconclusive_notes.len() < 10 {
            self.inconclusive_notes.push(note);
        }
    }
    pub fn set_extra(&mut self, k: &str, v: Json) {
        self.extra.insert(k.to_string(), v);
    }
    pub fn add_extra_count(&mut self, k: &str, n: i128) {
        let cur = self.extra.get(k).and_then(|j| j.as_i()).unwrap_or(0);
        self.extra.insert(k.to_string(), Json::Int(cur + n));
    }
    pub fn merge(&mut self, o: Stats) {
        self.evaluations += o.evaluations;
        self.nontrivial += o.nontrivial;
        self.distinct.extend(o.distinct);
        self.violations_total += o.violations_total;
        for v in o.violations {
            let kept = self.violations.iter().filter(|x| x.sig == v.sig).count() as u64;
            if kept < MAX_KEPT_VIOLATIONS_PER_SIG {
                self.violations.push(v);
            }
        }
        for (k, n) in o.viol_by_sig {
            *self.viol_by_sig.entry(k).or_insert(0) += n;
        }
        self.inconclusive += o.inconclusive;
        for n in o.inconclusive_notes {
            if self.inconclusive_notes.len() < 10 {
                self.inconclusive_notes.push(n);
            }
        }
        for s in o.samples {
            if self.samples.len() < MAX_SAMPLES {
                self.samples.push(s);
            }
        }
        for (k, n) in o.classes {
            *self.classes.entry(k).or_insert(0) += n;
        }
        for (k, v) in o.extra {
            match (self.extra.get(&k), &v) {
                (Some(Json::Int(a)), Json::Int(b)) => {
                    let s = a + b;
                    self.extra.insert(k, Json::Int(s));
                }
                (Some(Json::Arr(a)), Json::Arr(b)) => {
                    let mut a = a.clone();
                    for x in b {
                        if !a.contains(x) && a.len() < 64 {
                            a.push(x.clone());
                        }
                    }
                    self.extra.insert(k, Json::Arr(a));
                }
                _ => {
                    self.extra.insert(k, v);
                }
            }
        }
        self.truncated |= o.truncated;
    }
}

/// Run `n` cases on `ctx.threads` OS threads; each case gets its index and a thread-local Stats.
pub fn par_cases<F>(ctx: &Ctx, n: u64, f: F) -> Stats
where
    F: Fn(u64, &mut Stats) + Sync,
{
    let next = AtomicU64::new(0);
    let merged = Mutex::new(Stats::new());
    let threads = ctx.threads.max(1);
    std::thread::scope(|s| {
        for _ in 0..threads {
            s.spawn(|| {
                let mut local = Stats::new();
                loop {
                    let start = next.fetch_add(32, Ordering::Relaxed);
                    if start >= n {
                        break;
                    }
                    if ctx.expired() {
                        local.truncated = true;
                        break;
                    }
                    for i in start..(start + 32).min(n) {
                        f(i, &mut local);
                    }
                }
                merged.lock().unwrap().merge(local);
            });
        }
    });
    merged.into_inner().unwrap()
}

// ---------------------------------------------------------------------------------------------
// panic capture

thread_local! {
    static LAST_PANIC: RefCell<Option<String>> = const { RefCell::new(None) };
}
static QUIET_PANICS: AtomicU64 = AtomicU64::new(0);
pub static PANIC_LOG: Mutex<Vec<String>> = Mutex::new(Vec::new());

pub fn install_panic_hook() {
    let default = std::panic::take_hook();
    std::panic::set_hook(Box::new(move |info| {
        let loc = info.location().map(|l| format!("{}:{}", l.file(), l.line())).unwrap_or_default();
        let payload = if let Some(s) = info.payload().downcast_ref::<&str>() {
            s.to_string()
        } else if let Some(s) = info.payload().downcast_ref::<String>() {
            s.clone()
        } else {
            "<non-string panic>".to_string()
        };
        let text = format!("{} @ {}", payload, loc);
        LAST_PANIC.with(|p| *p.borrow_mut() = Some(text.clone()));
        crate::sched::abort_active();
        if let Ok(mut l) = PANIC_LOG.lock() {
            if l.len() >= 256 {
                l.remove(0);
            }
            l.push(text.clone());
        }
        if QUIET_PANICS.load(Ordering::Relaxed) == 0 {
            default(info);
        }
    }));
}

pub fn quiet_panics(on: bool) {
    QUIET_PANICS.store(on as u64, Ordering::Relaxed);
}

fn payload_text(p: &Box<dyn Any + Send>) -> String {
    if let Some(s) = p.downcast_ref::<&str>() {
        s.to_string()
    } else if let Some(s) = p.downcast_ref::<String>() {
        s.clone()
    } else {
        "<non-string panic>".to_string()
    }
}

/// Run `f`, turning an unwinding panic into Err(message @ location).
pub fn guarded<T, F: FnOnce() -> T>(f: F) -> Result<T, String> {
    LAST_PANIC.with(|p| *p.borrow_mut() = None);
    match catch_unwind(AssertUnwindSafe(f)) {
        Ok(v) => Ok(v),
        Err(p) => {
            // same-thread panic: the hook left the text (with location) in the thread-local;
            // pool-thread panic (re-raised by rayon): find the payload text in the global log
            if let Some(local) = LAST_PANIC.with(|p| p.borrow().clone()) {
                return Err(local);
            }
            let text = payload_text(&p);
            let from_log = PANIC_LOG
                .lock()
                .ok()
                .and_then(|l| l.iter().rev().find(|e| e.starts_with(&text)).cloned());
            Err(from_log.unwrap_or(text))
        }
    }
}

/// Short signature of a panic message: location without line number + leading words.
pub fn panic_sig(msg: &str) -> String {
    let (text, loc) = match msg.rsplit_once(" @ ") {
        Some((t, l)) => (t, l),
        None => (msg, ""),
    };
    let file = loc.split(':').next().unwrap_or("");
    let file = file.rsplit("/repo/").next().unwrap_or(file);
    let words: Vec<&str> = text.split_whitespace().take(4).collect();
    format!("panic:{}:{}", file, words.join("_"))
}

// ---------------------------------------------------------------------------------------------
// scratch space

pub struct Scratch {
    pub dir: PathBuf,
}

static SCRATCH_SLOTS: AtomicU64 = AtomicU64::new(0);

thread_local! {
    /// (slot of this thread, number of Scratch objects currently alive on it)
    static SCRATCH_TL: RefCell<(Option<u64>, u64)> = const { RefCell::new((None, 0)) };
}

impl Scratch {
    /// Scratch directories are deliberately *reused*: the n-th live Scratch of a thread always gets the
    /// same path, so input and output paths recur with different content from case to case (anything that
    /// caches by path, or trusts what is already on disk, is exercised by every stage).  The directory is
    /// wiped on creation and removed on drop.
    pub fn new(ctx: &Ctx, tag: &str) -> Scratch {
        let (slot, depth) = SCRATCH_TL.with(|t| {
            let mut t = t.borrow_mut();
            if t.0.is_none() {
                t.0 = Some(SCRATCH_SLOTS.fetch_add(1, Ordering::Relaxed));
            }
            t.1 += 1;
            (t.0.unwrap(), t.1)
        });
        let _ = tag;
        let dir = ctx.work.join(format!("s-{}-t{}-{}", std::process::id(), slot, depth));
        let _ = std::fs::remove_dir_all(&dir);
        std::fs::create_dir_all(&dir).expect("scratch dir");
        Scratch { dir }
    }
    pub fn path(&self, name: &str) -> String {
        self.dir.join(name).to_string_lossy().into_owned()
    }
    pub fn write(&self, name: &str, data: &[u8]) -> String {
        let p = self.path(name);
        std::fs::write(&p, data).expect("write scratch");
        p
    }
    pub fn subdir(&self, name: &str) -> String {
        let p = self.dir.join(name);
        std::fs::create_dir_all(&p).expect("scratch subdir");
        p.to_string_lossy().into_owned()
    }
}

impl Drop for Scratch {
    fn drop(&mut self) {
        let _ = std::fs::remove_dir_all(&self.dir);
        SCRATCH_TL.with(|t| {
            let mut t = t.borrow_mut();
            t.1 = t.1.saturating_sub(1);
        });
    }
}

// ---------------------------------------------------------------------------------------------
// "current case" file for stages where a failure aborts the process (UB-precondition checks,
// sanitizers): the driver reads it back when the stage dies.

pub fn note_current_case(ctx: &Ctx, j: &Json) {
    let p = ctx.work.join(format!("current-{}.json", std::process::id()));
    let _ = std::fs::write(p, j.to_string());
}

pub fn current_case_path(ctx: &Ctx) -> PathBuf {
    ctx.work.join(format!("current-{}.json", std::process::id()))
}

// ---------------------------------------------------------------------------------------------
// result

pub fn write_replay(ctx: &Ctx, idx: usize, v: &Violation) -> String {
    let _ = std::fs::create_dir_all(&ctx.replay_dir);
    let name = format!(
        "{}-{}-seed{}-{}-{}.json",
        ctx.stage.replace('.', "_"),
        ctx.flavour,
        ctx.seed,
        std::process::id(),
        idx
    );
    let path = ctx.replay_dir.join(name);
    let j = Json::obj()
        .set("stage", Json::s(ctx.stage.clone()))
        .set("flavour", Json::s(ctx.flavour.clone()))
        .set("seed", Json::Int(ctx.seed as i128))
        .set("sig", Json::s(v.sig.clone()))
        .set("msg", Json::s(v.msg.clone()))
        .set("case", v.replay.clone());
    let _ = std::fs::write(&path, j.to_string());
    path.to_string_lossy().into_owned()
}

pub fn finish(ctx: &Ctx, stats: Stats, started: Instant) -> i32 {
    let mut viol = Json::arr();
    for (i, v) in stats.violations.iter().enumerate() {
        let path = write_replay(ctx, i, v);
        viol.push(
            Json::obj()
                .set("sig", Json::s(v.sig.clone()))
                .set("msg", Json::s(v.msg.clone()))
                .set("replay", Json::s(path)),
        );
    }
    let mut by_sig = Json::obj();
    for (k, n) in &stats.viol_by_sig {
        by_sig.put(k.clone(), Json::Int(*n as i128));
    }
    let mut classes = Json::obj();
    for (k, n) in &stats.classes {
        classes.put(k.clone(), Json::Int(*n as i128));
    }
    let mut extra = Json::obj();
    for (k, v) in &stats.extra {
        extra.put(k.clone(), v.clone());
    }
    let (cli_runs, dribbled, one_cpu) = crate::util::cli_run_counters();
    if cli_runs > 0 {
        extra.put("cli_runs".to_string(), Json::Int(cli_runs as i128));
        extra.put("cli_runs_with_stdin_in_small_chunks".to_string(), Json::Int(dribbled as i128));
        extra.put("cli_runs_on_one_cpu".to_string(), Json::Int(one_cpu as i128));
    }
    let j = Json::obj()
        .set("stage", Json::s(ctx.stage.clone()))
        .set("flavour", Json::s(ctx.flavour.clone()))
        .set("seed", Json::Int(ctx.seed as i128))
        .set("evaluations", Json::Int(stats.evaluations as i128))
        .set("nontrivial", Json::Int(stats.nontrivial as i128))
        .set("distinct_nontrivial", Json::Int(stats.distinct.len() as i128))
        .set("violations_total", Json::Int(stats.violations_total as i128))
        .set("violations", viol)
        .set("violations_by_sig", by_sig)
        .set("inconclusive", Json::Int(stats.inconclusive as i128))
        .set("inconclusive_notes", Json::Arr(stats.inconclusive_notes.iter().map(|s| Json::s(s.clone())).collect()))
        .set("samples", Json::Arr(stats.samples.clone()))
        .set("classes", classes)
        .set("extra", extra)
        .set("truncated", Json::Bool(stats.truncated))
        .set("wall_s", Json::Num(started.elapsed().as_secs_f64()));
    let text = j.to_string();
    if let Some(out) = &ctx.out {
        std::fs::write(out, &text).expect("write result");
    } else {
        println!("{}", text);
    }
    let _ = std::fs::remove_file(current_case_path(ctx));
    0
}

pub fn default_deadline(secs: u64) -> Instant {
    Instant::now() + Duration::from_secs(secs)
}

pub fn hex(b: &[u8]) -> String {
    let mut s = String::with_capacity(b.len() * 2);
    for x in b {
        s.push_str(&format!("{:02x}", x));
    }
    s
}

pub fn unhex(s: &str) -> Vec<u8> {
    (0..s.len() / 2).map(|i| u8::from_str_radix(&s[2 * i..2 * i + 2], 16).unwrap_or(0)).collect()
}
