//! Event log + schedule controller for the three worker-loop shapes (DESIGN.md §2.4).
//!
//! The repository's hooks call `ktio::verif::emit(site, args)`.  The closure installed here
//! (a) appends the event to an append-only log under the controller's own mutex together with a
//! worker index derived from the OS thread id, and (b) in *controlled* mode parks the caller at the
//! `took` site until the decision procedure releases it, so that the run is serialised at hook
//! granularity and the choice at each step is "which held record ordinal is published next".

use refmodel::rng::{mix, Rng};
use std::collections::HashMap;
use std::sync::{Arc, Condvar, Mutex};
use std::thread::ThreadId;
use std::time::{Duration, Instant};

pub const NONE: u64 = u64::MAX;

/// the controller currently installed as sink (so that a panic anywhere can release parked workers)
static ACTIVE: Mutex<Option<Arc<Controller>>> = Mutex::new(None);

/// Called from the panic hook: a worker that panics never reaches its exit hook, so the remaining
/// workers would stay parked until the watchdog; release everybody at once (run = inconclusive for
/// scheduling purposes, the panic itself is reported by the stage).
pub fn abort_active() {
    let ctl = ACTIVE.lock().ok().and_then(|g| g.clone());
    if let Some(c) = ctl {
        {
            let mut g = c.inner.lock().unwrap_or_else(|e| e.into_inner());
            if matches!(g.mode, Mode::Controlled(_)) {
                g.aborted = true;
                g.panicked = true;
            }
        }
        c.cv.notify_all();
    }
}

#[derive(Clone, Debug)]
pub struct Event {
    pub worker: usize,
    pub site: &'static str,
    pub args: [u64; 4],
}

#[derive(Clone, Debug, PartialEq)]
pub enum Mode {
    /// only record events
    Log,
    /// serialise at hook granularity; choices from the forced prefix, then policy
    Controlled(Policy),
    /// free-running, but sleep a hash-determined 0..max_us at every took/wrote site
    Perturbed { seed: u64, max_us: u64 },
    /// free-running, except that the worker which takes record number `record` is held for `hold_ms` at that hook
    /// (no lock is held there): it falls behind the others by as many records as they can process in that time
    Straggle { record: u64, hold_ms: u64 },
}

#[derive(Clone, Debug, PartialEq)]
pub enum Policy {
    /// always the first option (lowest held ordinal) beyond the forced prefix: DFS default branch
    First,
    /// seeded random choice among the parked workers
    Random(u64),
    /// PCT-like: each worker gets a random priority, highest runs; priorities reshuffled at d change points
    Pct { seed: u64, change_every: u32 },
}

struct Inner {
    events: Vec<Event>,
    workers: HashMap<ThreadId, usize>,
    mode: Mode,
    threads: usize,
    took_site: &'static str,
    exit_site: &'static str,
    parked: Vec<(usize, u64)>,
    exited: usize,
    released: Option<usize>,
    /// (number of options, chosen index, chosen ordinal)
    choices: Vec<(u32, u32, u64)>,
    prefix: Vec<u32>,
    diverged: bool,
    aborted: bool,
    rng: Rng,
    prio: HashMap<usize, u64>,
    rounds_completed: u64,
    panicked: bool,
    /// decisions taken because the system went quiet although fewer than `threads` workers had reported
    /// (an implementation is free to start fewer workers than requested)
    quiescence_decisions: u64,
    last_event: Instant,
    /// workers released by a decision that have neither parked again nor exited yet
    running: usize,
}

pub struct Controller {
    inner: Mutex<Inner>,
    cv: Condvar,
    watchdog: Duration,
}

pub struct RunTrace {
    pub quiescence_decisions: u64,
    pub events: Vec<Event>,
    pub choices: Vec<(u32, u32, u64)>,
    pub diverged: bool,
    pub aborted: bool,
    pub workers_seen: usize,
}

impl Controller {
    pub fn new(mode: Mode, threads: usize, took_site: &'static str, exit_site: &'static str, prefix: Vec<u32>) -> Arc<Controller> {
        let seed = match &mode {
            Mode::Controlled(Policy::Random(s)) => *s,
            Mode::Controlled(Policy::Pct { seed, .. }) => *seed,
            Mode::Perturbed { seed, .. } => *seed,
            _ => 0,
        };
        Arc::new(Controller {
            inner: Mutex::new(Inner {
                events: Vec::new(),
                workers: HashMap::new(),
                mode,
                threads,
                took_site,
                exit_site,
                parked: Vec::new(),
                exited: 0,
                released: None,
                choices: Vec::new(),
                prefix,
                diverged: false,
                aborted: false,
                rng: Rng::new(seed ^ 0x5ced),
                prio: HashMap::new(),
                rounds_completed: 0,
                panicked: false,
                quiescence_decisions: 0,
                last_event: Instant::now(),
                running: 0,
            }),
            cv: Condvar::new(),
            watchdog: Duration::from_secs(30),
        })
    }

    /// Install as the process-global sink.  Only one controller can be active at a time.
    pub fn install(self: &Arc<Self>) {
        let me = Arc::clone(self);
        *ACTIVE.lock().unwrap_or_else(|e| e.into_inner()) = Some(Arc::clone(self));
        ktio::verif::set_sink(Arc::new(move |site, args| me.on_event(site, args)));
    }

    pub fn uninstall() {
        ktio::verif::clear_sink();
        *ACTIVE.lock().unwrap_or_else(|e| e.into_inner()) = None;
    }

    pub fn finish(self: &Arc<Self>) -> RunTrace {
        Controller::uninstall();
        let mut g = self.inner.lock().unwrap_or_else(|e| e.into_inner());
        RunTrace {
            quiescence_decisions: g.quiescence_decisions,
            events: std::mem::take(&mut g.events),
            choices: std::mem::take(&mut g.choices),
            diverged: g.diverged,
            aborted: g.aborted && !g.panicked,
            workers_seen: g.workers.len(),
        }
    }

    fn decide(g: &mut Inner) {
        if g.parked.is_empty() {
            return;
        }
        g.parked.sort_by_key(|p| p.1);
        let n = g.parked.len() as u32;
        let step = g.choices.len();
        let mut c = if step < g.prefix.len() {
            g.prefix[step]
        } else {
            match g.mode.clone() {
                Mode::Controlled(Policy::First) => 0,
                Mode::Controlled(Policy::Random(_)) => g.rng.below(n as u64) as u32,
                Mode::Controlled(Policy::Pct { change_every, .. }) => {
                    if change_every > 0 && step as u32 % change_every == 0 {
                        g.prio.clear();
                    }
                    let mut best = 0u32;
                    let mut best_p = 0u64;
                    for (i, (w, _)) in g.parked.clone().iter().enumerate() {
                        let fresh = g.rng.next_u64() | 1;
                        let p = *g.prio.entry(*w).or_insert(fresh);
                        if p >= best_p {
                            best_p = p;
                            best = i as u32;
                        }
                    }
                    best
                }
                _ => 0,
            }
        };
        if c >= n {
            g.diverged = true;
            c = n - 1;
        }
        let (w, ord) = g.parked.remove(c as usize);
        g.choices.push((n, c, ord));
        g.released = Some(w);
    }

    fn on_event(&self, site: &'static str, args: [u64; 4]) {
        let tid = std::thread::current().id();
        let mut sleep_us = 0u64;
        {
            let mut g = self.inner.lock().unwrap_or_else(|e| e.into_inner());
            let next = g.workers.len();
            let w = *g.workers.entry(tid).or_insert(next);
            g.events.push(Event { worker: w, site, args });
            g.last_event = Instant::now();
            // online bounds monitor for the mapped writer: the hook fires *before* the copy, so an
            // out-of-bounds write is turned into a panic here instead of corrupting memory / SIGSEGV
            if site == "mm.write" && args[0].checked_add(args[1]).map_or(true, |end| end > args[2]) {
                drop(g);
                panic!("VERIF mapped write out of bounds: {} bytes at offset {} in a {}-byte mapping", args[1], args[0], args[2]);
            }
            match g.mode.clone() {
                Mode::Log => {}
                Mode::Perturbed { seed, max_us } => {
                    if max_us > 0 && (site == g.took_site || site.ends_with(".wrote")) {
                        let h = mix(seed ^ mix(w as u64) ^ mix(args[0]).rotate_left(7) ^ mix(g.events.len() as u64));
                        // about half of the sites do not sleep at all
                        if h & 1 == 1 {
                            sleep_us = (h >> 8) % (max_us + 1);
                        }
                    }
                }
                Mode::Straggle { record, hold_ms } => {
                    if site == g.took_site && args[0] == record {
                        sleep_us = hold_ms * 1000;
                    }
                }
                Mode::Controlled(_) => {
                    if g.aborted {
                        return;
                    }
                    if site == g.took_site && args[0] != NONE {
                        g.running = g.running.saturating_sub(1);
                        g.parked.push((w, args[0]));
                        if g.parked.len() + g.exited >= g.threads {
                            Controller::decide(&mut g);
                            self.cv.notify_all();
                        }
                        let deadline = Instant::now() + self.watchdog;
                        loop {
                            if g.released == Some(w) {
                                g.released = None;
                                g.running += 1;
                                break;
                            }
                            if g.aborted {
                                break;
                            }
                            let now = Instant::now();
                            if now >= deadline {
                                // watchdog: give up on control, let everybody run (run is inconclusive)
                                g.aborted = true;
                                self.cv.notify_all();
                                break;
                            }
                            let (ng, _) = self.cv.wait_timeout(g, (deadline - now).min(Duration::from_millis(40))).unwrap_or_else(|e| e.into_inner());
                            g = ng;
                            // quiescence rule: nobody is running (no event for a while, nobody released) although
                            // fewer than `threads` workers reported -> the implementation started fewer workers;
                            // decide among those that are parked
                            if g.released.is_none() && g.running == 0 && !g.parked.is_empty() && !g.aborted && g.last_event.elapsed() > Duration::from_millis(150) {
                                g.quiescence_decisions += 1;
                                Controller::decide(&mut g);
                                g.last_event = Instant::now();
                                self.cv.notify_all();
                            }
                        }
                    } else if site == g.exit_site {
                        g.running = g.running.saturating_sub(1);
                        g.exited += 1;
                        if g.exited >= g.threads {
                            // all workers of this round (chunk) are gone: re-arm for the next round
                            g.exited = 0;
                            g.rounds_completed += 1;
                            g.workers.clear();
                        } else if g.parked.len() + g.exited >= g.threads && g.released.is_none() {
                            Controller::decide(&mut g);
                            self.cv.notify_all();
                        }
                    }
                }
            }
        }
        if sleep_us > 0 {
            std::thread::sleep(Duration::from_micros(sleep_us));
        }
    }
}

/// Next DFS prefix after a completed run, or None when the tree is exhausted.
pub fn next_prefix(choices: &[(u32, u32, u64)]) -> Option<Vec<u32>> {
    let mut i = choices.len();
    while i > 0 {
        i -= 1;
        let (n, c, _) = choices[i];
        if c + 1 < n {
            let mut p: Vec<u32> = choices[..i].iter().map(|x| x.1).collect();
            p.push(c + 1);
            return Some(p);
        }
    }
    None
}

/// Toy worker loop with the same shape as the repository's, for the controller self-check
/// (DESIGN.md §7.3): `buggy` publishes at a shared completion counter instead of the ordinal.
pub fn toy_run(threads: usize, records: usize, buggy: bool, ctl: &Arc<Controller>) -> Vec<u64> {
    use std::sync::atomic::{AtomicUsize, Ordering};
    let next = Mutex::new(0usize);
    let done = AtomicUsize::new(0);
    let out: Vec<Mutex<u64>> = (0..records).map(|_| Mutex::new(NONE)).collect();
    std::thread::scope(|s| {
        for _ in 0..threads {
            s.spawn(|| {
                loop {
                    let rec = {
                        let mut g = next.lock().unwrap();
                        if *g < records {
                            *g += 1;
                            Some(*g - 1)
                        } else {
                            None
                        }
                    };
                    ctl.on_event("toy.took", [rec.map_or(NONE, |r| r as u64), 0, 0, 0]);
                    match rec {
                        Some(r) => {
                            let slot = if buggy { done.fetch_add(1, Ordering::SeqCst) } else { r };
                            *out[slot].lock().unwrap() = r as u64;
                        }
                        None => break,
                    }
                }
                ctl.on_event("toy.exit", [0; 4]);
            });
        }
    });
    out.iter().map(|m| *m.lock().unwrap()).collect()
}
