//! schedule controller (filled in below)
