pub fn placeholder() {}
