//! Miri-sized workloads: the same oracles as ktmon, a few hundred cases per process, run by
//! `cargo +nightly miri test -p ktmiri <filter>` (DESIGN.md §2.3, flavour M).  Every test prints
//! `KTMIRI <name> cases=<n> distinct=<d> sample=<json>` so that the driver can report what was
//! actually interpreted.

#[cfg(test)]
mod tests {
    use refmodel::gen::{gen_len, gen_seq_any};
    use refmodel::json::Json;
    use refmodel::model;
    use refmodel::rng::{hash_bytes, Rng};
    use std::collections::HashSet;

    fn seed() -> u64 {
        std::env::var("KTMIRI_SEED").ok().and_then(|s| s.parse().ok()).unwrap_or(1)
    }
    fn n(default: u64) -> u64 {
        std::env::var("KTMIRI_N").ok().and_then(|s| s.parse().ok()).unwrap_or(default)
    }
    fn report(name: &str, cases: u64, distinct: &HashSet<u64>, sample: Json) {
        println!("KTMIRI {} cases={} distinct={} sample={}", name, cases, distinct.len(), sample.to_string());
    }

    #[test]
    fn c01_kmers() {
        let mut seen = HashSet::new();
        let total = n(60);
        let mut sample = Json::Null;
        for i in 0..total {
            let mut rng = Rng::keyed(seed(), "miri.c01", i);
            let k = (i % 31) as usize + 1;
            let len = gen_len(&mut rng, k, None, k + 12);
            let (_, seq) = gen_seq_any(&mut rng, len, false);
            let got: Vec<(u64, u64)> = kmer::kmer::KmerGenerator::new(&seq, k).collect();
            let exp = model::kmer_pairs(&seq, k);
            assert_eq!(got, exp, "k-mer iterator differs from the reference for seq={:?} k={}", seq, k);
            seen.insert(hash_bytes(&seq) ^ k as u64);
            if i == 0 {
                sample = Json::obj().set("seq", Json::bytes(&seq)).set("k", Json::u(k));
            }
        }
        // numeric_to_kmer / rev_comp under the interpreter
        for k in [1usize, 2, 15, 31] {
            let x = (0x1234_5678_9abc_def0u64) & ((1u64 << (2 * k)) - 1);
            assert_eq!(kmer::numeric_to_kmer(x, k), model::decode(x, k));
            assert_eq!(kmer::kmer::KmerGenerator::rev_comp(x, k), model::rc_code(x, k));
        }
        report("c01_kmers", total, &seen, sample);
    }

    #[test]
    fn c09_minimisers() {
        let mut seen = HashSet::new();
        let total = n(60);
        let mut sample = Json::Null;
        for i in 0..total {
            let mut rng = Rng::keyed(seed(), "miri.c09", i);
            let m = (i % 9) as usize + 1;
            let w = m + rng.usize(0, 6);
            let len = gen_len(&mut rng, m, Some(w), w + 14);
            let (_, seq) = gen_seq_any(&mut rng, len, false);
            let got: Vec<(u64, usize, usize)> = kmer::minimiser::MinimiserGenerator::new(&seq, w, m).collect();
            assert_eq!(got, model::minimiser_runs(&seq, w, m), "minimiser runs differ for seq={:?} w={} m={}", seq, w, m);
            seen.insert(hash_bytes(&seq) ^ (w * 64 + m) as u64);
            if i == 0 {
                sample = Json::obj().set("seq", Json::bytes(&seq)).set("w", Json::u(w)).set("m", Json::u(m));
            }
        }
        report("c09_minimisers", total, &seen, sample);
    }

    #[test]
    fn c18_kmer_minimisers() {
        let mut seen = HashSet::new();
        let total = n(60);
        let mut sample = Json::Null;
        for i in 0..total {
            let mut rng = Rng::keyed(seed(), "miri.c18", i);
            let m = (i % 9) as usize + 1;
            let w = m + rng.usize(0, 6);
            let len = gen_len(&mut rng, m, Some(w), w + 14);
            let (_, seq) = gen_seq_any(&mut rng, len, false);
            let a: Vec<(u64, usize, usize, Vec<u64>)> = kmer::kmer_minimisers::KmerMinimiserGenerator::new(&seq, w, m).collect();
            let proj: Vec<(u64, usize, usize)> = a.iter().map(|x| (x.0, x.1, x.2)).collect();
            assert_eq!(proj, model::minimiser_runs(&seq, w, m), "runs differ for seq={:?} w={} m={}", seq, w, m);
            let cat: Vec<u64> = a.iter().flat_map(|x| x.3.iter().copied()).collect();
            assert_eq!(cat, model::canonical_stream(&seq, w), "w-mers not conserved for seq={:?} w={} m={}", seq, w, m);
            seen.insert(hash_bytes(&seq) ^ (w * 64 + m) as u64);
            if i == 0 {
                sample = Json::obj().set("seq", Json::bytes(&seq)).set("w", Json::u(w)).set("m", Json::u(m));
            }
        }
        report("c18_kmer_minimisers", total, &seen, sample);
    }

    /// the get_unchecked sites of the composition / coverage per-record routines (C04, C08, C12, C14)
    #[test]
    fn c14_unchecked_sites() {
        use composition::oligo::OligoComputer;
        use composition::oligocgr::OligoCgrComputer;
        use coverage::CovComputer;
        let mut seen = HashSet::new();
        let total = n(30);
        let mut sample = Json::Null;
        let oligo: Vec<OligoComputer> = (1..=3).map(|k| OligoComputer::new("u.fa".into(), "u.out".into(), k)).collect();
        let ocgr: Vec<OligoCgrComputer> = (1..=3).map(|k| OligoCgrComputer::new("u.fa".into(), "u.out".into(), k, 16)).collect();
        for i in 0..total {
            let mut rng = Rng::keyed(seed(), "miri.c14", i);
            let k = (i % 3) as usize + 1;
            let len = gen_len(&mut rng, k, None, 30);
            let (_, seq) = gen_seq_any(&mut rng, len, false);
            let cols = model::canonical_list(k);
            let (counts, total_w) = model::oligo_counts(&seq, k, &cols);
            let v = oligo[k - 1].verif_vectorise_one(&seq);
            assert_eq!(v.len(), cols.len());
            for (j, x) in v.iter().enumerate() {
                let e = if total_w == 0 { 0.0 } else { counts[j] as f64 / total_w as f64 };
                assert!((x - e).abs() < 1e-12, "oligo value mismatch for seq={:?} k={}", seq, k);
            }
            let t = ocgr[k - 1].verif_vectorise_one(&seq).unwrap();
            assert_eq!(t.len(), cols.len());
            // coverage histogram with extreme multiplicities
            let bin_count = rng.usize(1, 5);
            let bin_size = rng.usize(1, 4);
            let mut cmap = std::collections::HashMap::new();
            for c in model::canonical_stream(&seq, k) {
                cmap.entry(c).or_insert_with(|| *rng.pick(&[0u32, 1, 7, u32::MAX]));
            }
            let mut cov = CovComputer::new("u.fa".into(), "u".into(), k, bin_size, bin_count);
            cov.set_norm(false);
            let h = cov.verif_vectorise_one(&seq, &cmap);
            let mut e = vec![0f64; bin_count];
            for c in model::canonical_stream(&seq, k) {
                let b = ((cmap[&c] as u64 / bin_size as u64) as usize).min(bin_count - 1);
                e[b] += 1.0;
            }
            assert_eq!(h, e, "coverage histogram mismatch for seq={:?}", seq);
            seen.insert(hash_bytes(&seq) ^ k as u64);
            if i == 0 {
                sample = Json::obj().set("seq", Json::bytes(&seq)).set("k", Json::u(k)).set("bin_count", Json::u(bin_count));
            }
        }
        report("c14_unchecked_sites", total, &seen, sample);
    }

    /// N threads issuing disjoint in-bounds write_at calls on a heap buffer through MMWriter
    #[test]
    fn c14_mmwriter_threads() {
        use ktio::mmap::MMWriter;
        let mut seen = HashSet::new();
        let rounds = n(6).min(12);
        for r in 0..rounds {
            let threads = 2 + (r % 3) as usize;
            let rows = 7usize;
            let row_len = 5 + r as usize;
            let header = if r % 2 == 0 { 3 } else { 0 };
            let mut buf = vec![0u8; header + rows * row_len];
            {
                let w: MMWriter<u8> = MMWriter::new(&mut buf[..]);
                if header > 0 {
                    unsafe { w.write_at(&vec![b'H'; header], 0) };
                }
                let next = std::sync::Mutex::new(0usize);
                std::thread::scope(|s| {
                    for _ in 0..threads {
                        s.spawn(|| loop {
                            let i = {
                                let mut g = next.lock().unwrap();
                                let v = *g;
                                *g += 1;
                                v
                            };
                            if i >= rows {
                                break;
                            }
                            let row = vec![b'a' + i as u8; row_len];
                            unsafe { w.write_at(&row, header + i * row_len) };
                        });
                    }
                });
            }
            for i in 0..rows {
                assert!(buf[header + i * row_len..header + (i + 1) * row_len].iter().all(|&b| b == b'a' + i as u8));
            }
            seen.insert(r * 100 + threads as u64);
        }
        report("c14_mmwriter_threads", rounds, &seen, Json::obj().set("rows", Json::u(7)).set("threads", Json::s("2..4")).set("what", Json::s("disjoint write_at on a heap buffer")));
    }

    /// count() + merge() on three records, one worker, two chunks (scc map, rayon pool, temp files)
    #[test]
    fn c07_counter_small() {
        let dir = std::env::temp_dir().join(format!("ktmiri-{}", std::process::id()));
        std::fs::create_dir_all(&dir).unwrap();
        let inp = dir.join("in.fa");
        let recs: [&[u8]; 3] = [b"ACGTACGTTG", b"TTGCANACGT", b"ACGTAC"];
        let mut fa = Vec::new();
        for (i, r) in recs.iter().enumerate() {
            fa.extend_from_slice(format!(">r{}\n", i).as_bytes());
            fa.extend_from_slice(r);
            fa.push(b'\n');
        }
        std::fs::write(&inp, &fa).unwrap();
        let out = dir.join("out");
        std::fs::create_dir_all(&out).unwrap();
        let k = 3;
        let mut ctr = counter::CountComputer::new(inp.to_string_lossy().into_owned(), out.to_string_lossy().into_owned(), k);
        // one worker: with two, Miri reports a data race *inside scc 2.2.5* (a `&mut Bucket` is
        // retagged before the bucket lock is taken) on the unchanged tree - dependency noise, see
        // DESIGN.md; concurrency of the counter is covered natively (C07 stages) and by filtered TSan
        ctr.set_threads(1);
        // base limit of 12 bases per chunk => two chunks
        ctr.set_max_memory(12.5 * 8.0 / 1_000_000_000f64);
        ctr.count();
        ctr.merge(true);
        let text = std::fs::read_to_string(out.join("kmers.counts")).unwrap();
        let mut got = std::collections::BTreeMap::new();
        for l in text.lines() {
            let (a, b) = l.split_once('\t').unwrap();
            assert!(got.insert(a.parse::<u64>().unwrap(), b.parse::<u64>().unwrap()).is_none());
        }
        let mut exp = std::collections::BTreeMap::new();
        for r in recs.iter() {
            for c in model::canonical_stream(r, k) {
                *exp.entry(c).or_insert(0u64) += 1;
            }
        }
        assert_eq!(got, exp);
        let _ = std::fs::remove_dir_all(&dir);
        let mut seen = HashSet::new();
        seen.insert(1);
        seen.insert(2);
        report("c07_counter_small", 2, &seen, Json::obj().set("records", Json::u(3)).set("k", Json::u(3)).set("threads", Json::u(1)).set("chunks", Json::u(2)));
    }
}
