//! splitmix64 stream keyed by (seed, property/stage tag, case index).

#[derive(Clone, Debug)]
pub struct Rng {
    s: u64,
}

pub fn mix(mut z: u64) -> u64 {
    z = z.wrapping_add(0x9E3779B97F4A7C15);
    z = (z ^ (z >> 30)).wrapping_mul(0xBF58476D1CE4E5B9);
    z = (z ^ (z >> 27)).wrapping_mul(0x94D049BB133111EB);
    z ^ (z >> 31)
}

pub fn hash_bytes(bytes: &[u8]) -> u64 {
    // FNV-1a folded through mix; only used for distinct-case counting and keyed streams
    let mut h: u64 = 0xcbf29ce484222325;
    for &b in bytes {
        h ^= b as u64;
        h = h.wrapping_mul(0x100000001b3);
    }
    mix(h)
}

impl Rng {
    pub fn new(seed: u64) -> Self {
        Rng { s: mix(seed ^ 0xD1B54A32D192ED03) }
    }

    /// Independent stream for (seed, tag, index).
    pub fn keyed(seed: u64, tag: &str, idx: u64) -> Self {
        let t = hash_bytes(tag.as_bytes());
        Rng { s: mix(mix(seed) ^ t.rotate_left(17) ^ mix(idx.wrapping_mul(0xA24BAED4963EE407))) }
    }

    pub fn next_u64(&mut self) -> u64 {
        self.s = self.s.wrapping_add(0x9E3779B97F4A7C15);
        let mut z = self.s;
        z = (z ^ (z >> 30)).wrapping_mul(0xBF58476D1CE4E5B9);
        z = (z ^ (z >> 27)).wrapping_mul(0x94D049BB133111EB);
        z ^ (z >> 31)
    }

    /// uniform in [0, n) (n > 0)
    pub fn below(&mut self, n: u64) -> u64 {
        debug_assert!(n > 0);
        ((self.next_u64() as u128 * n as u128) >> 64) as u64
    }

    /// uniform in [lo, hi] inclusive
    pub fn range(&mut self, lo: u64, hi: u64) -> u64 {
        lo + self.below(hi - lo + 1)
    }

    pub fn usize(&mut self, lo: usize, hi: usize) -> usize {
        self.range(lo as u64, hi as u64) as usize
    }

    pub fn chance(&mut self, num: u64, den: u64) -> bool {
        self.below(den) < num
    }

    pub fn pick<'a, T>(&mut self, xs: &'a [T]) -> &'a T {
        &xs[self.below(xs.len() as u64) as usize]
    }

    /// log-uniform integer in [lo, hi]
    pub fn log_range(&mut self, lo: u64, hi: u64) -> u64 {
        let l = (lo.max(1) as f64).ln();
        let h = (hi as f64).ln();
        let u = (self.next_u64() >> 11) as f64 / (1u64 << 53) as f64;
        let v = (l + u * (h - l)).exp().round() as u64;
        v.clamp(lo, hi)
    }

    pub fn shuffle<T>(&mut self, xs: &mut [T]) {
        for i in (1..xs.len()).rev() {
            let j = self.below(i as u64 + 1) as usize;
            xs.swap(i, j);
        }
    }
}
