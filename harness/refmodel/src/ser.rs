//! Serialisers: record list -> FASTA / FASTQ bytes -> optional gzip layouts.

use crate::gen::Rec;
use crate::rng::Rng;
use flate2::write::GzEncoder;
use flate2::{Compression, GzBuilder};
use std::io::Write;

#[derive(Clone, Debug)]
pub struct SerOpts {
    /// None = single line; Some(n) = wrap sequence lines at n bytes (FASTA only)
    pub wrap: Option<usize>,
    pub crlf: bool,
    pub final_newline: bool,
}

impl SerOpts {
    pub fn plain() -> Self {
        SerOpts { wrap: None, crlf: false, final_newline: true }
    }
    pub fn random(rng: &mut Rng) -> Self {
        SerOpts {
            wrap: if rng.chance(1, 2) { Some(rng.usize(1, 200)) } else { None },
            crlf: rng.chance(1, 4),
            final_newline: !rng.chance(1, 4),
        }
    }
    pub fn describe(&self) -> String {
        format!(
            "wrap={} {} {}",
            self.wrap.map_or("none".to_string(), |w| w.to_string()),
            if self.crlf { "CRLF" } else { "LF" },
            if self.final_newline { "final-nl" } else { "no-final-nl" }
        )
    }
}

fn header(out: &mut Vec<u8>, lead: u8, r: &Rec, fastq: bool) {
    out.push(lead);
    out.extend_from_slice(r.id.as_bytes());
    if let Some(d) = &r.desc {
        // FASTQ ids end at the first *space* in the parser the repository delegates to,
        // FASTA ids at the first whitespace: use a space for FASTQ, space or tab for FASTA.
        let sep = if !fastq && d.len() % 3 == 0 { b'\t' } else { b' ' };
        out.push(sep);
        out.extend_from_slice(d.as_bytes());
    }
}

pub fn to_fasta(recs: &[Rec], o: &SerOpts) -> Vec<u8> {
    let nl: &[u8] = if o.crlf { b"\r\n" } else { b"\n" };
    let mut out = Vec::new();
    for r in recs {
        header(&mut out, b'>', r, false);
        out.extend_from_slice(nl);
        match o.wrap {
            None => {
                if !r.seq.is_empty() {
                    out.extend_from_slice(&r.seq);
                    out.extend_from_slice(nl);
                }
            }
            Some(w) => {
                for chunk in r.seq.chunks(w.max(1)) {
                    out.extend_from_slice(chunk);
                    out.extend_from_slice(nl);
                }
            }
        }
    }
    if !o.final_newline && out.ends_with(nl) {
        let n = out.len() - nl.len();
        out.truncate(n);
    }
    out
}

/// FASTQ: 4-line records, or (o.wrap = Some(n)) sequence and quality wrapped over the same number of lines
/// as in older multi-line FASTQ; records must have at least one base (the parser rejects empty ones).
pub fn to_fastq(recs: &[Rec], o: &SerOpts) -> Vec<u8> {
    let nl: &[u8] = if o.crlf { b"\r\n" } else { b"\n" };
    let mut out = Vec::new();
    for (i, r) in recs.iter().enumerate() {
        assert!(!r.seq.is_empty(), "FASTQ records need bases");
        header(&mut out, b'@', r, true);
        out.extend_from_slice(nl);
        let w = o.wrap.unwrap_or(usize::MAX).max(1);
        for chunk in r.seq.chunks(w) {
            out.extend_from_slice(chunk);
            out.extend_from_slice(nl);
        }
        out.push(b'+');
        out.extend_from_slice(nl);
        // quality: printable; in the 4-line layout it may legitimately start with '@' or '+', wrapped
        // layouts avoid those two at line starts (ambiguous for any line-oriented parser)
        let qual: Vec<u8> = (0..r.seq.len()).map(|j| b'!' + ((i * 7 + j * 13) % 60) as u8).collect();
        for chunk in qual.chunks(w) {
            let mut c = chunk.to_vec();
            if o.wrap.is_some() && (c[0] == b'@' || c[0] == b'+') {
                c[0] = b'I';
            }
            out.extend_from_slice(&c);
            out.extend_from_slice(nl);
        }
    }
    if !o.final_newline && out.ends_with(nl) {
        let n = out.len() - nl.len();
        out.truncate(n);
    }
    out
}

#[derive(Clone, Debug, PartialEq)]
pub enum GzLayout {
    /// one member, given compression level (0 = stored blocks)
    Single(u32),
    /// several concatenated members, cut points chosen at random (inside records / lines)
    Multi(usize),
    /// BGZF: members <= 64 KiB with the BC extra field and an empty EOF member
    Bgzf,
}

impl GzLayout {
    pub fn describe(&self) -> String {
        match self {
            GzLayout::Single(l) => format!("gz-single(level {})", l),
            GzLayout::Multi(n) => format!("gz-multi({} members)", n),
            GzLayout::Bgzf => "bgzf".to_string(),
        }
    }
    pub fn members(&self) -> usize {
        match self {
            GzLayout::Single(_) => 1,
            GzLayout::Multi(n) => *n,
            GzLayout::Bgzf => 2,
        }
    }
}

fn member(data: &[u8], level: u32) -> Vec<u8> {
    let mut e = GzEncoder::new(Vec::new(), Compression::new(level));
    e.write_all(data).unwrap();
    e.finish().unwrap()
}

fn bgzf_block(data: &[u8]) -> Vec<u8> {
    let extra = vec![b'B', b'C', 2, 0, 0, 0];
    let mut e = GzBuilder::new().extra(extra).write(Vec::new(), Compression::new(6));
    e.write_all(data).unwrap();
    let mut v = e.finish().unwrap();
    let bsize = (v.len() - 1) as u16;
    // header: 10 bytes, XLEN(2), then SI1 SI2 SLEN(2) BSIZE(2)
    v[16] = (bsize & 0xff) as u8;
    v[17] = (bsize >> 8) as u8;
    v
}

pub fn gzip(data: &[u8], layout: &GzLayout, rng: &mut Rng) -> Vec<u8> {
    match layout {
        GzLayout::Single(l) => member(data, *l),
        GzLayout::Multi(n) => {
            let n = (*n).max(1);
            let mut cuts: Vec<usize> = (0..n - 1).map(|_| rng.usize(0, data.len())).collect();
            // half of the member boundaries fall exactly after a line terminator (e.g. right after a header
            // line, between a sequence line and the '+' line, between two records)
            let newlines: Vec<usize> = data.iter().enumerate().filter(|(_, &b)| b == b'\n').map(|(i, _)| i + 1).collect();
            if !newlines.is_empty() {
                for (j, c) in cuts.iter_mut().enumerate() {
                    if j % 2 == 0 {
                        *c = *rng.pick(&newlines);
                    }
                }
                if cuts.len() >= 2 {
                    cuts[1] = newlines[0]; // right after the very first header line
                }
            }
            cuts.sort();
            let mut out = Vec::new();
            let mut prev = 0;
            for (i, c) in cuts.iter().chain(std::iter::once(&data.len())).enumerate() {
                let level = if (i + rng.below(2) as usize) % 3 == 0 { 0 } else { 6 };
                out.extend_from_slice(&member(&data[prev..*c], level));
                prev = *c;
            }
            out
        }
        GzLayout::Bgzf => {
            let mut out = Vec::new();
            let bs = rng.usize(64, 60000);
            for chunk in data.chunks(bs) {
                out.extend_from_slice(&bgzf_block(chunk));
            }
            out.extend_from_slice(&bgzf_block(b""));
            out
        }
    }
}

pub fn gunzip_all(data: &[u8]) -> Vec<u8> {
    use std::io::Read;
    let mut d = flate2::read::MultiGzDecoder::new(data);
    let mut out = Vec::new();
    d.read_to_end(&mut out).unwrap();
    out
}
