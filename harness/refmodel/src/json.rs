//! Minimal JSON value + writer + reader (serde_json is not in the offline lock file).

use std::collections::BTreeMap;
use std::fmt::Write as _;

#[derive(Clone, Debug, PartialEq)]
pub enum Json {
    Null,
    Bool(bool),
    Int(i128),
    Num(f64),
    Str(String),
    Arr(Vec<Json>),
    Obj(BTreeMap<String, Json>),
}

impl Json {
    pub fn obj() -> Json {
        Json::Obj(BTreeMap::new())
    }
    pub fn arr() -> Json {
        Json::Arr(Vec::new())
    }
    pub fn s<S: Into<String>>(s: S) -> Json {
        Json::Str(s.into())
    }
    pub fn i<T: Into<i128>>(v: T) -> Json {
        Json::Int(v.into())
    }
    pub fn u(v: usize) -> Json {
        Json::Int(v as i128)
    }
    /// bytes rendered as text where printable, \xNN escapes otherwise (for samples / replays)
    pub fn bytes(b: &[u8]) -> Json {
        Json::Str(show_bytes(b))
    }
    pub fn set<K: Into<String>>(mut self, k: K, v: Json) -> Json {
        if let Json::Obj(ref mut m) = self {
            m.insert(k.into(), v);
        }
        self
    }
    pub fn put<K: Into<String>>(&mut self, k: K, v: Json) {
        if let Json::Obj(ref mut m) = self {
            m.insert(k.into(), v);
        }
    }
    pub fn push(&mut self, v: Json) {
        if let Json::Arr(ref mut a) = self {
            a.push(v);
        }
    }
    pub fn get(&self, k: &str) -> Option<&Json> {
        match self {
            Json::Obj(m) => m.get(k),
            _ => None,
        }
    }
    pub fn as_str(&self) -> Option<&str> {
        match self {
            Json::Str(s) => Some(s),
            _ => None,
        }
    }
    pub fn as_i(&self) -> Option<i128> {
        match self {
            Json::Int(i) => Some(*i),
            Json::Num(f) => Some(*f as i128),
            _ => None,
        }
    }
    pub fn as_arr(&self) -> Option<&Vec<Json>> {
        match self {
            Json::Arr(a) => Some(a),
            _ => None,
        }
    }
    pub fn as_bool(&self) -> Option<bool> {
        match self {
            Json::Bool(b) => Some(*b),
            _ => None,
        }
    }

    pub fn to_string(&self) -> String {
        let mut s = String::new();
        self.write(&mut s);
        s
    }

    fn write(&self, out: &mut String) {
        match self {
            Json::Null => out.push_str("null"),
            Json::Bool(b) => out.push_str(if *b { "true" } else { "false" }),
            Json::Int(i) => {
                let _ = write!(out, "{}", i);
            }
            Json::Num(f) => {
                if f.is_finite() {
                    let _ = write!(out, "{:?}", f);
                } else {
                    let _ = write!(out, "\"{}\"", f);
                }
            }
            Json::Str(s) => write_str(out, s),
            Json::Arr(a) => {
                out.push('[');
                for (i, v) in a.iter().enumerate() {
                    if i > 0 {
                        out.push(',');
                    }
                    v.write(out);
                }
                out.push(']');
            }
            Json::Obj(m) => {
                out.push('{');
                for (i, (k, v)) in m.iter().enumerate() {
                    if i > 0 {
                        out.push(',');
                    }
                    write_str(out, k);
                    out.push(':');
                    v.write(out);
                }
                out.push('}');
            }
        }
    }

    pub fn parse(text: &str) -> Result<Json, String> {
        let mut p = Parser { b: text.as_bytes(), i: 0 };
        p.ws();
        let v = p.value()?;
        p.ws();
        if p.i != p.b.len() {
            return Err(format!("trailing data at {}", p.i));
        }
        Ok(v)
    }
}

fn write_str(out: &mut String, s: &str) {
    out.push('"');
    for c in s.chars() {
        match c {
            '"' => out.push_str("\\\""),
            '\\' => out.push_str("\\\\"),
            '\n' => out.push_str("\\n"),
            '\r' => out.push_str("\\r"),
            '\t' => out.push_str("\\t"),
            c if (c as u32) < 0x20 => {
                let _ = write!(out, "\\u{:04x}", c as u32);
            }
            c => out.push(c),
        }
    }
    out.push('"');
}

/// Printable ASCII kept, everything else as \xNN; `\` doubled.  Inverse: [`parse_bytes`].
pub fn show_bytes(b: &[u8]) -> String {
    let mut s = String::with_capacity(b.len());
    for &c in b {
        if c == b'\\' {
            s.push_str("\\\\");
        } else if (0x20..0x7f).contains(&c) {
            s.push(c as char);
        } else {
            let _ = write!(s, "\\x{:02x}", c);
        }
    }
    s
}

pub fn parse_bytes(s: &str) -> Vec<u8> {
    let b = s.as_bytes();
    let mut out = Vec::with_capacity(b.len());
    let mut i = 0;
    while i < b.len() {
        if b[i] == b'\\' && i + 1 < b.len() {
            if b[i + 1] == b'\\' {
                out.push(b'\\');
                i += 2;
                continue;
            }
            if b[i + 1] == b'x' && i + 3 < b.len() {
                let h = std::str::from_utf8(&b[i + 2..i + 4]).unwrap_or("00");
                out.push(u8::from_str_radix(h, 16).unwrap_or(0));
                i += 4;
                continue;
            }
        }
        out.push(b[i]);
        i += 1;
    }
    out
}

struct Parser<'a> {
    b: &'a [u8],
    i: usize,
}

impl Parser<'_> {
    fn ws(&mut self) {
        while self.i < self.b.len() && matches!(self.b[self.i], b' ' | b'\n' | b'\r' | b'\t') {
            self.i += 1;
        }
    }
    fn value(&mut self) -> Result<Json, String> {
        self.ws();
        if self.i >= self.b.len() {
            return Err("eof".into());
        }
        match self.b[self.i] {
            b'{' => {
                self.i += 1;
                let mut m = BTreeMap::new();
                self.ws();
                if self.b.get(self.i) == Some(&b'}') {
                    self.i += 1;
                    return Ok(Json::Obj(m));
                }
                loop {
                    self.ws();
                    let k = match self.value()? {
                        Json::Str(s) => s,
                        _ => return Err("key".into()),
                    };
                    self.ws();
                    if self.b.get(self.i) != Some(&b':') {
                        return Err(format!("expected : at {}", self.i));
                    }
                    self.i += 1;
                    let v = self.value()?;
                    m.insert(k, v);
                    self.ws();
                    match self.b.get(self.i) {
                        Some(b',') => self.i += 1,
                        Some(b'}') => {
                            self.i += 1;
                            return Ok(Json::Obj(m));
                        }
                        _ => return Err(format!("expected , or }} at {}", self.i)),
                    }
                }
            }
            b'[' => {
                self.i += 1;
                let mut a = Vec::new();
                self.ws();
                if self.b.get(self.i) == Some(&b']') {
                    self.i += 1;
                    return Ok(Json::Arr(a));
                }
                loop {
                    a.push(self.value()?);
                    self.ws();
                    match self.b.get(self.i) {
                        Some(b',') => self.i += 1,
                        Some(b']') => {
                            self.i += 1;
                            return Ok(Json::Arr(a));
                        }
                        _ => return Err(format!("expected , or ] at {}", self.i)),
                    }
                }
            }
            b'"' => {
                self.i += 1;
                let mut s = String::new();
                loop {
                    if self.i >= self.b.len() {
                        return Err("eof in string".into());
                    }
                    let c = self.b[self.i];
                    match c {
                        b'"' => {
                            self.i += 1;
                            return Ok(Json::Str(s));
                        }
                        b'\\' => {
                            let e = *self.b.get(self.i + 1).ok_or("eof")?;
                            self.i += 2;
                            match e {
                                b'n' => s.push('\n'),
                                b'r' => s.push('\r'),
                                b't' => s.push('\t'),
                                b'b' => s.push('\u{8}'),
                                b'f' => s.push('\u{c}'),
                                b'u' => {
                                    let h = std::str::from_utf8(&self.b[self.i..self.i + 4])
                                        .map_err(|_| "bad \\u")?;
                                    let mut cp = u32::from_str_radix(h, 16).map_err(|_| "bad \\u")?;
                                    self.i += 4;
                                    if (0xD800..0xDC00).contains(&cp)
                                        && self.b.get(self.i) == Some(&b'\\')
                                        && self.b.get(self.i + 1) == Some(&b'u')
                                    {
                                        let h2 = std::str::from_utf8(&self.b[self.i + 2..self.i + 6])
                                            .map_err(|_| "bad \\u")?;
                                        let lo = u32::from_str_radix(h2, 16).map_err(|_| "bad \\u")?;
                                        self.i += 6;
                                        cp = 0x10000 + ((cp - 0xD800) << 10) + (lo - 0xDC00);
                                    }
                                    s.push(char::from_u32(cp).unwrap_or('\u{fffd}'));
                                }
                                other => s.push(other as char),
                            }
                        }
                        _ => {
                            // copy one UTF-8 scalar
                            let start = self.i;
                            self.i += 1;
                            while self.i < self.b.len() && (self.b[self.i] & 0xC0) == 0x80 {
                                self.i += 1;
                            }
                            s.push_str(std::str::from_utf8(&self.b[start..self.i]).map_err(|_| "utf8")?);
                        }
                    }
                }
            }
            b't' if self.b[self.i..].starts_with(b"true") => {
                self.i += 4;
                Ok(Json::Bool(true))
            }
            b'f' if self.b[self.i..].starts_with(b"false") => {
                self.i += 5;
                Ok(Json::Bool(false))
            }
            b'n' if self.b[self.i..].starts_with(b"null") => {
                self.i += 4;
                Ok(Json::Null)
            }
            _ => {
                let start = self.i;
                while self.i < self.b.len()
                    && matches!(self.b[self.i], b'0'..=b'9' | b'-' | b'+' | b'.' | b'e' | b'E')
                {
                    self.i += 1;
                }
                let t = std::str::from_utf8(&self.b[start..self.i]).map_err(|_| "num")?;
                if t.is_empty() {
                    return Err(format!("unexpected byte at {}", start));
                }
                if let Ok(i) = t.parse::<i128>() {
                    Ok(Json::Int(i))
                } else {
                    t.parse::<f64>().map(Json::Num).map_err(|_| format!("bad number {}", t))
                }
            }
        }
    }
}
