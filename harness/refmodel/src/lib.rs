//! Reference models (oracles), generators and serialisers for the kmertools monitors.
//!
//! Everything here is written from the property *statements* (/verif/properties.jsonl),
//! text-level and naive on purpose: no rolling registers, no lookup table copied from the
//! repository, no ring buffers.  See DESIGN.md §2.1.

pub mod gen;
pub mod json;
pub mod model;
pub mod rng;
pub mod ser;

pub use json::Json;
pub use rng::Rng;
