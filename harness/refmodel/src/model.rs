//! Naive, text-level reference models written from the property statements.

use std::collections::BTreeMap;

/// A/C/G/T/U in either case -> base-4 digit (A=0, C=1, G=2, T/U=3); anything else is ambiguous.
pub fn base_digit(b: u8) -> Option<u64> {
    match b {
        b'A' | b'a' => Some(0),
        b'C' | b'c' => Some(1),
        b'G' | b'g' => Some(2),
        b'T' | b't' | b'U' | b'u' => Some(3),
        _ => None,
    }
}

pub fn is_clean(window: &[u8]) -> bool {
    window.iter().all(|&b| base_digit(b).is_some())
}

/// Base-4 code of a clean text, leftmost base most significant (u128: k up to 63 is safe).
pub fn encode(text: &[u8]) -> Option<u128> {
    let mut v: u128 = 0;
    for &b in text {
        v = v * 4 + base_digit(b)? as u128;
    }
    Some(v)
}

/// k letters over ACGT whose code is x (most significant digit first).
pub fn decode(x: u64, k: usize) -> String {
    let mut s = vec![b'A'; k];
    let mut v = x as u128;
    for j in (0..k).rev() {
        s[j] = b"ACGT"[(v % 4) as usize];
        v /= 4;
    }
    String::from_utf8(s).unwrap()
}

/// Text-level reverse complement: reverse, A<->T, C<->G, U->A (case kept), other bytes map to themselves.
pub fn revcomp_text(s: &[u8]) -> Vec<u8> {
    s.iter()
        .rev()
        .map(|&b| match b {
            b'A' => b'T',
            b'C' => b'G',
            b'G' => b'C',
            b'T' | b'U' => b'A',
            b'a' => b't',
            b'c' => b'g',
            b'g' => b'c',
            b't' | b'u' => b'a',
            o => o,
        })
        .collect()
}

/// Reverse complement of a code, computed through text.
pub fn rc_code(x: u64, k: usize) -> u64 {
    let t = decode(x, k);
    encode(&revcomp_text(t.as_bytes())).unwrap() as u64
}

pub fn canonical(x: u64, k: usize) -> u64 {
    x.min(rc_code(x, k))
}

/// All valid windows: (start position, forward code), increasing position.
pub fn windows(seq: &[u8], k: usize) -> Vec<(usize, u64)> {
    let mut out = Vec::new();
    if k == 0 || seq.len() < k {
        return out;
    }
    for i in 0..=seq.len() - k {
        if let Some(c) = encode(&seq[i..i + k]) {
            out.push((i, c as u64));
        }
    }
    out
}

/// (forward, reverse-strand) pairs the k-mer iterator must yield.
pub fn kmer_pairs(seq: &[u8], k: usize) -> Vec<(u64, u64)> {
    windows(seq, k).into_iter().map(|(_, f)| (f, rc_code(f, k))).collect()
}

/// Canonical codes of all valid windows, in order.
pub fn canonical_stream(seq: &[u8], k: usize) -> Vec<u64> {
    windows(seq, k).into_iter().map(|(_, f)| canonical(f, k)).collect()
}

pub fn canonical_counts(seq: &[u8], k: usize) -> BTreeMap<u64, u64> {
    let mut m = BTreeMap::new();
    for c in canonical_stream(seq, k) {
        *m.entry(c).or_insert(0) += 1;
    }
    m
}

/// Sorted list of canonical codes (x <= rc(x)) for k: column r of a composition vector is list[r].
pub fn canonical_list(k: usize) -> Vec<u64> {
    let n = 1u64 << (2 * k);
    let mut v = Vec::new();
    for x in 0..n {
        if x <= rc_code(x, k) {
            v.push(x);
        }
    }
    v
}

pub fn canonical_count_closed_form(k: usize) -> u64 {
    let p = 1u64 << (2 * k);
    if k % 2 == 0 {
        (p + (1u64 << (2 * (k / 2)))) / 2
    } else {
        p / 2
    }
}

/// Reference oligo counts per column (raw), plus window total.
pub fn oligo_counts(seq: &[u8], k: usize, cols: &[u64]) -> (Vec<u64>, u64) {
    let counts = canonical_counts(seq, k);
    let total: u64 = counts.values().sum();
    (cols.iter().map(|c| *counts.get(c).unwrap_or(&0)).collect(), total)
}

/// Brute-force minimiser runs: (minimiser value, start, end) for each maximal run of consecutive
/// clean w-windows with equal minimiser value (smallest canonical m-mer in the window).
pub fn minimiser_runs(seq: &[u8], w: usize, m: usize) -> Vec<(u64, usize, usize)> {
    let mut out: Vec<(u64, usize, usize)> = Vec::new();
    if m == 0 || w < m || seq.len() < w {
        return out;
    }
    // canonical m-mer at each position, None when the m-window is not clean
    let mm: Vec<Option<u64>> = (0..=seq.len() - m)
        .map(|i| encode(&seq[i..i + m]).map(|c| canonical(c as u64, m)))
        .collect();
    let mut prev_valid = false; // was window s-1 valid?
    for s in 0..=seq.len() - w {
        if !is_clean(&seq[s..s + w]) {
            prev_valid = false;
            continue;
        }
        let mut mn = u64::MAX;
        for j in s..=s + w - m {
            let v = mm[j].expect("clean window has clean m-mers");
            if v < mn {
                mn = v;
            }
        }
        if prev_valid {
            let last = out.last_mut().unwrap();
            if last.0 == mn {
                last.2 = s + w;
                continue;
            }
        }
        out.push((mn, s, s + w));
        prev_valid = true;
    }
    out
}

/// The same runs as `minimiser_runs`, in O(n) (sliding-window minimum over the canonical m-mers with a
/// monotone deque; ambiguity via a prefix count): for windows of tens of thousands of bases, where the brute
/// force is out of reach.  `selfcheck` compares the two on small cases.
pub fn minimiser_runs_fast(seq: &[u8], w: usize, m: usize) -> Vec<(u64, usize, usize)> {
    let mut out: Vec<(u64, usize, usize)> = Vec::new();
    if m == 0 || w < m || seq.len() < w {
        return out;
    }
    let n = seq.len();
    // amb[i] = number of ambiguous bytes in seq[..i]
    let mut amb = vec![0u32; n + 1];
    for i in 0..n {
        amb[i + 1] = amb[i] + if base_digit(seq[i]).is_some() { 0 } else { 1 };
    }
    let clean = |a: usize, b: usize| amb[b] == amb[a];
    let mm: Vec<Option<u64>> = (0..=n - m)
        .map(|i| if clean(i, i + m) { encode(&seq[i..i + m]).map(|c| canonical(c as u64, m)) } else { None })
        .collect();
    let span = w - m + 1; // m-mers per window
    let mut dq: std::collections::VecDeque<usize> = std::collections::VecDeque::new();
    let mut prev_valid = false;
    for j in 0..mm.len() {
        // push m-mer j (None = +infinity: never a minimum of a clean window)
        let vj = mm[j].unwrap_or(u64::MAX);
        while let Some(&b) = dq.back() {
            if mm[b].unwrap_or(u64::MAX) >= vj {
                dq.pop_back();
            } else {
                break;
            }
        }
        dq.push_back(j);
        if j + 1 < span {
            continue;
        }
        let s = j + 1 - span; // window start
        while *dq.front().unwrap() < s {
            dq.pop_front();
        }
        if !clean(s, s + w) {
            prev_valid = false;
            continue;
        }
        let mn = mm[*dq.front().unwrap()].expect("clean window has clean m-mers");
        if prev_valid {
            let last = out.last_mut().unwrap();
            if last.0 == mn {
                last.2 = s + w;
                continue;
            }
        }
        out.push((mn, s, s + w));
        prev_valid = true;
    }
    out
}

// ------------------------------------------------------------------------------------------
// Exact chaos-game arithmetic: coordinates are N / 2^d with N in u128.

#[derive(Clone, Copy, Debug, PartialEq)]
pub struct Dyadic {
    pub n: u128,
    pub d: u32,
}

impl Dyadic {
    pub fn normalised(self) -> Dyadic {
        let mut n = self.n;
        let mut d = self.d;
        while d > 0 && n % 2 == 0 {
            n /= 2;
            d -= 1;
        }
        Dyadic { n, d }
    }
    /// exactly representable as f64?
    pub fn exact_f64(self) -> Option<f64> {
        let z = self.normalised();
        if z.n < (1u128 << 53) && z.d < 1000 {
            Some(z.n as f64 * (0.5f64).powi(z.d as i32))
        } else {
            None
        }
    }
    pub fn approx_f64(self) -> f64 {
        let z = self.normalised();
        z.n as f64 * (0.5f64).powi(z.d as i32)
    }
}

pub fn corner(b: u8, s: u64) -> Option<(u64, u64)> {
    match b {
        b'A' | b'a' => Some((0, 0)),
        b'C' | b'c' => Some((0, s)),
        b'G' | b'g' => Some((s, s)),
        b'T' | b't' | b'U' | b'u' => Some((s, 0)),
        _ => None,
    }
}

/// Exact CGR points for as long as u128 holds them (S <= 2^20 => at least 100 points).
/// Returns None if the sequence contains a non-nucleotide byte.
pub fn cgr_exact(seq: &[u8], s: u64, max_points: usize) -> Option<Vec<(Dyadic, Dyadic)>> {
    let mut x = Dyadic { n: s as u128, d: 1 };
    let mut y = Dyadic { n: s as u128, d: 1 };
    let mut out = Vec::new();
    for (i, &b) in seq.iter().enumerate() {
        let (cx, cy) = corner(b, s)?;
        if i < max_points {
            // p = (c + p)/2 = (c*2^d + n) / 2^(d+1)
            x = Dyadic { n: ((cx as u128) << x.d) + x.n, d: x.d + 1 };
            y = Dyadic { n: ((cy as u128) << y.d) + y.n, d: y.d + 1 };
            out.push((x, y));
        }
    }
    Some(out)
}

/// Closed sub-square [lo, lo + S/2^j] (as exact dyadics scaled by 2^j: returns (lo_num, j) with
/// lo = lo_num * S / 2^j) that the last j bases confine the point to.  `last` = the last j bases in
/// sequence order (oldest first).
pub fn cgr_subsquare(last: &[u8]) -> Option<(u128, u128, u32)> {
    // With unit square: after base b the point p' = (c + p)/2, so the newest base decides the
    // top-level half, the one before it the next level, and so on.
    let j = last.len() as u32;
    let mut lx: u128 = 0;
    let mut ly: u128 = 0;
    for (depth, &b) in last.iter().rev().enumerate() {
        let (cx, cy) = corner(b, 1)?;
        let weight = 1u128 << (j as usize - 1 - depth);
        lx += cx as u128 * weight;
        ly += cy as u128 * weight;
    }
    Some((lx, ly, j))
}

#[cfg(test)]
mod tests {
    use super::*;

    #[test]
    fn basics() {
        assert_eq!(encode(b"ACGT"), Some(0b00011011));
        assert_eq!(decode(0b00011011, 4), "ACGT");
        assert_eq!(rc_code(0b001101101011, 6), 0b000101100011);
        assert_eq!(canonical_list(4).len(), 136);
        assert_eq!(canonical_count_closed_form(4), 136);
        assert_eq!(canonical_count_closed_form(3), 32);
        assert_eq!(windows(b"ACNGTT", 2), vec![(0, 1), (3, 11), (4, 15)]);
    }

    #[test]
    fn minimisers_match_pinned_expectations() {
        // from the repository's own pinned test (kmer/src/minimiser.rs)
        let seq = b"ATGCGATATCGNTAGGCGTCGATGGA";
        let runs = minimiser_runs(seq, 8, 5);
        let got: Vec<(String, String)> = runs
            .iter()
            .map(|&(m, s, e)| (String::from_utf8(seq[s..e].to_vec()).unwrap(), decode(m, 5)))
            .collect();
        let exp = [
            ("ATGCGATA", "ATCGC"),
            ("TGCGATATCG", "ATATC"),
            ("TAGGCGTCGA", "ACGCC"),
            ("GCGTCGATGGA", "ATCGA"),
        ];
        assert_eq!(got.len(), exp.len());
        for (g, e) in got.iter().zip(exp.iter()) {
            assert_eq!((g.0.as_str(), g.1.as_str()), *e);
        }
    }

    #[test]
    fn cgr() {
        let pts = cgr_exact(b"atg", 1, 100).unwrap();
        assert_eq!(pts[0].0.exact_f64(), Some(0.25));
        assert_eq!(pts[0].1.exact_f64(), Some(0.25));
        assert_eq!(pts[1].0.exact_f64(), Some(0.625));
        assert_eq!(pts[1].1.exact_f64(), Some(0.125));
        assert_eq!(pts[2].0.exact_f64(), Some(0.8125));
        assert_eq!(pts[2].1.exact_f64(), Some(0.5625));
        // last two bases "tg": x in [0.75,1.0], y in [0.5,0.75]
        assert_eq!(cgr_subsquare(b"tg"), Some((3, 2, 2)));
    }
}
