//! Workload generators (DESIGN.md §2.5).

use crate::model::revcomp_text;
use crate::rng::Rng;

#[derive(Clone, Copy, Debug, PartialEq, Eq, PartialOrd, Ord)]
pub enum SeqClass {
    Uniform,
    MixedCaseU,
    IsolatedN,
    RunsOfN,
    EdgeN,
    ArbBytes,
    HomoPolymer,
    Period2,
    Period3,
    TwoLetter,
    Palindrome,
    AllAmbiguous,
    Tandem,
}

pub const ALL_CLASSES: &[SeqClass] = &[
    SeqClass::Uniform,
    SeqClass::MixedCaseU,
    SeqClass::IsolatedN,
    SeqClass::RunsOfN,
    SeqClass::EdgeN,
    SeqClass::ArbBytes,
    SeqClass::HomoPolymer,
    SeqClass::Period2,
    SeqClass::Period3,
    SeqClass::TwoLetter,
    SeqClass::Palindrome,
    SeqClass::AllAmbiguous,
    SeqClass::Tandem,
];

impl SeqClass {
    pub fn name(self) -> &'static str {
        match self {
            SeqClass::Uniform => "uniform",
            SeqClass::MixedCaseU => "mixedcase+U",
            SeqClass::IsolatedN => "isolatedN",
            SeqClass::RunsOfN => "runsN",
            SeqClass::EdgeN => "edgeN",
            SeqClass::ArbBytes => "arbitrary-bytes",
            SeqClass::HomoPolymer => "homopolymer",
            SeqClass::Period2 => "period2",
            SeqClass::Period3 => "period3",
            SeqClass::TwoLetter => "two-letter",
            SeqClass::Palindrome => "rc-palindrome",
            SeqClass::AllAmbiguous => "all-ambiguous",
            SeqClass::Tandem => "tandem-repeat",
        }
    }
}

const UPPER: &[u8] = b"ACGT";
const MIXED: &[u8] = b"ACGTUacgtu";

/// Ambiguous byte for in-memory sequences: any value 0x04..=0xFF that is not a base letter.
pub fn ambiguous_byte(rng: &mut Rng, file_safe: bool) -> u8 {
    loop {
        let b = if file_safe {
            // printable, non-whitespace ASCII; '>' '@' '+' are excluded everywhere for simplicity
            *rng.pick(b"NnRYKMSWBDHVXryk-.*0123456789")
        } else if rng.chance(1, 3) {
            *rng.pick(b"NnRY-.*")
        } else {
            rng.range(4, 255) as u8
        };
        if crate::model::base_digit(b).is_none() {
            return b;
        }
    }
}

pub fn gen_seq(rng: &mut Rng, class: SeqClass, len: usize, file_safe: bool) -> Vec<u8> {
    let mut s: Vec<u8> = Vec::with_capacity(len);
    match class {
        SeqClass::Uniform => {
            for _ in 0..len {
                s.push(*rng.pick(UPPER));
            }
        }
        SeqClass::MixedCaseU => {
            for _ in 0..len {
                s.push(*rng.pick(MIXED));
            }
        }
        SeqClass::IsolatedN => {
            for _ in 0..len {
                s.push(*rng.pick(UPPER));
            }
            if len > 0 {
                let n = 1 + rng.below(3.min(len as u64)) as usize;
                for _ in 0..n {
                    let p = rng.below(len as u64) as usize;
                    s[p] = ambiguous_byte(rng, file_safe);
                }
            }
        }
        SeqClass::RunsOfN => {
            while s.len() < len {
                let run = 1 + rng.below(12) as usize;
                let amb = rng.chance(1, 4);
                for _ in 0..run {
                    if s.len() < len {
                        s.push(if amb { ambiguous_byte(rng, file_safe) } else { *rng.pick(MIXED) });
                    }
                }
            }
        }
        SeqClass::EdgeN => {
            for _ in 0..len {
                s.push(*rng.pick(UPPER));
            }
            if len > 0 {
                match rng.below(3) {
                    0 => s[0] = ambiguous_byte(rng, file_safe),
                    1 => s[len - 1] = ambiguous_byte(rng, file_safe),
                    _ => {
                        s[0] = ambiguous_byte(rng, file_safe);
                        s[len - 1] = ambiguous_byte(rng, file_safe);
                    }
                }
            }
        }
        SeqClass::ArbBytes => {
            for _ in 0..len {
                if rng.chance(1, 5) {
                    s.push(ambiguous_byte(rng, file_safe));
                } else {
                    s.push(*rng.pick(MIXED));
                }
            }
        }
        SeqClass::HomoPolymer => {
            let b = *rng.pick(MIXED);
            s.resize(len, b);
        }
        SeqClass::Period2 => {
            let a = *rng.pick(UPPER);
            let b = *rng.pick(UPPER);
            for i in 0..len {
                s.push(if i % 2 == 0 { a } else { b });
            }
        }
        SeqClass::Period3 => {
            let u = [*rng.pick(UPPER), *rng.pick(UPPER), *rng.pick(UPPER)];
            for i in 0..len {
                s.push(u[i % 3]);
            }
        }
        SeqClass::TwoLetter => {
            let a = *rng.pick(UPPER);
            let b = *rng.pick(UPPER);
            for _ in 0..len {
                s.push(if rng.chance(1, 2) { a } else { b });
            }
        }
        SeqClass::Palindrome => {
            let half = len / 2;
            for _ in 0..half {
                s.push(*rng.pick(UPPER));
            }
            let rc = revcomp_text(&s);
            s.extend_from_slice(&rc);
            if s.len() < len {
                s.push(*rng.pick(UPPER));
            }
        }
        SeqClass::AllAmbiguous => {
            for _ in 0..len {
                s.push(ambiguous_byte(rng, file_safe));
            }
        }
        SeqClass::Tandem => {
            let ulen = 1 + rng.below(9) as usize;
            let unit: Vec<u8> = (0..ulen).map(|_| *rng.pick(UPPER)).collect();
            for i in 0..len {
                s.push(unit[i % ulen]);
            }
            // an occasional point mutation breaks exact periodicity
            if len > 0 && rng.chance(1, 2) {
                let p = rng.below(len as u64) as usize;
                s[p] = *rng.pick(UPPER);
            }
        }
    }
    s
}

pub fn gen_seq_any(rng: &mut Rng, len: usize, file_safe: bool) -> (SeqClass, Vec<u8>) {
    let c = *rng.pick(ALL_CLASSES);
    (c, gen_seq(rng, c, len, file_safe))
}

/// Length choice that favours boundaries around `k` (and `w` when given).
pub fn gen_len(rng: &mut Rng, k: usize, w: Option<usize>, max: usize) -> usize {
    match rng.below(10) {
        0 => *rng.pick(&[0usize, 1, k.saturating_sub(1), k, k + 1]),
        1 => {
            if let Some(w) = w {
                *rng.pick(&[w.saturating_sub(1), w, w + 1, w + 2])
            } else {
                k + rng.below(4) as usize
            }
        }
        2..=6 => rng.usize(0, (k + 40).min(max)),
        _ => rng.usize(0, max),
    }
    .min(max)
}

#[derive(Clone, Debug)]
pub struct Rec {
    pub id: String,
    pub desc: Option<String>,
    pub seq: Vec<u8>,
}

const ID_CHARS: &[u8] = b"ABCDEFGHIJKLMNOPQRSTUVWXYZabcdefghijklmnopqrstuvwxyz0123456789_.:|/-#=";

/// Unique ids (index is embedded), punctuation allowed, never whitespace, `"` or `\`.
pub fn gen_id(rng: &mut Rng, idx: usize) -> String {
    let n = rng.usize(0, 6);
    let mut s = String::new();
    for _ in 0..n {
        s.push(*rng.pick(ID_CHARS) as char);
    }
    // one id in ten ends like a read-pair / version marker (readers must hand the id over verbatim)
    let tail = if rng.chance(1, 10) { *rng.pick(&["/1", "/2", ".1", ".2", ":1", "#0/1", "_1"]) } else { "" };
    format!("r{}{}{}{}", idx, if n > 0 { "_" } else { "" }, s, tail)
}

pub fn gen_desc(rng: &mut Rng) -> Option<String> {
    if rng.chance(1, 2) {
        return None;
    }
    let words = rng.usize(1, 3);
    let mut parts = Vec::new();
    for _ in 0..words {
        let n = rng.usize(1, 8);
        // descriptions may also hold the characters that start records and separate fields elsewhere (a
        // substitution "c.35G>A", an e-mail address, a '+') — they are only text here
        let w: String = (0..n).map(|_| if rng.chance(1, 12) { *rng.pick(b">@+;,") as char } else { *rng.pick(ID_CHARS) as char }).collect();
        parts.push(w);
    }
    // inner separators may be space or tab
    let mut s = String::new();
    for (i, p) in parts.iter().enumerate() {
        if i > 0 {
            s.push(if rng.chance(1, 4) { '\t' } else { ' ' });
        }
        s.push_str(p);
    }
    Some(s)
}

/// A list of records with unique ids; sequence bytes are file-safe (printable, no whitespace,
/// never starting a line with '>', '@' or '+' because those bytes are never generated).
pub fn gen_records(rng: &mut Rng, count: usize, k_hint: usize, w_hint: Option<usize>, max_len: usize, min_len: usize) -> Vec<Rec> {
    let mut v = Vec::with_capacity(count);
    for i in 0..count {
        let len = gen_len(rng, k_hint, w_hint, max_len).max(min_len);
        let (_, seq) = gen_seq_any(rng, len, true);
        v.push(Rec { id: gen_id(rng, i), desc: gen_desc(rng), seq });
    }
    v
}
